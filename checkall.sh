#!/bin/bash
# Runs the quick check of every registered property on the current tree; prints one line each.
cd /verif
rc=0
for p in $(jq -r '.checks[].property_id' MANIFEST.json) "$@"; do
  out=$(/verif/bin/gvc check --property $p 2>&1); r=$?
  echo "$p rc=$r $(echo "$out" | grep -c '^VIOLATION') violations; $(echo "$out" | tail -1 | cut -c1-150)"
  if [ $r -ne 0 ]; then rc=1; echo "$out" | grep '^FAILED' | head -8 | cut -c1-200; fi
done
exit $rc
