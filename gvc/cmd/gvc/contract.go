package main

// Contract files: //@ comment blocks in /repo/**/zz_verif_contracts*.go (build tag verif).
// Every clause is wrapped mechanically into a Go function in an in-memory overlay file of the
// same package, so go/types resolves every name and the clause reaches the translator as SSA.

import (
	"bytes"
	"fmt"
	"go/ast"
	"go/parser"
	"go/printer"
	"go/token"
	"os"
	"path/filepath"
	"regexp"
	"sort"
	"strings"

	"golang.org/x/tools/go/ssa"
)

type Param struct{ Name, Type string }

type Clause struct {
	AbruptOnly       bool   // an assigns designator that applies to panicking exits only
	Assumed          bool   // used by callers, not checked against the body
	Kind             string // requires ensures ensures_panic invariant decreases assigns axiom lemma
	Label            string
	Text             string
	Expr             string
	Bound            []Param
	FnName           string
	Names            []string // parameter names of the generated function, in order
	Fn               *ssa.Function
	Desig            string // for assigns: lvalue | elems | fields | any | all | nothing
	AnyT             string // any(T.f)
	AnyF             string
	Loop             int
	ObsName, ObsType string
	File             string
	Line             int
	Owner            *Contract
}

// SiteSpec: obligations at the n-th call of a named function/builtin inside the contracted function,
// stated over its local variables (vars) and the call's arguments arg0, arg1, ...
type SiteSpec struct {
	Key      string // callee#n
	Vars     []Param
	Requires []*Clause
}

type LoopSpec struct {
	N          int
	Vars       []Param
	Invariants []*Clause
	Decreases  *Clause
}

type Contract struct {
	TimeoutS                        int // per-obligation solver timeout for this function (0 = default)
	ExitVars                        []Param
	FreeVars                        []Param // captured variables of a function literal the clauses may mention
	Sites                           []*SiteSpec
	Captures                        [][2]string // name, callee#n
	ReplayAssume                    []*Clause
	IfaceOf                         *Contract // implementation checked against this interface contract
	SelfType                        string
	PkgDir                          string
	PkgName                         string
	Func                            string // RelString form, or "iface T.M"
	IsIface                         bool
	Requires, Ensures, EnsuresPanic []*Clause
	EnsuresAbrupt                   []*Clause // hold whenever the function is left by a panic (own or propagated), after its deferred calls
	Assigns                         []*Clause
	Loops                           map[int]*LoopSpec
	Flags                           map[string]bool
	Ghost                           []Param
	Props                           []string
	Replay                          string
	Observe                         []*Clause
	File                            string
	Line                            int
	// resolved
	Fn      *ssa.Function
	Params  []Param // receiver + params
	Results []Param
	Errors  []string
}

type ContractSet struct {
	AtomicOnly   []string    // pkgDir|T.f : only sync/atomic may touch the field
	Guarded      [][3]string // pkgDir, T.f, T.lock : every access needs the lock held
	TypeInvQ     []*Clause
	OnceOnly     []string  // "dir|func": only used as the argument of (*sync.Once).Do
	ScriptRely   []*Clause // what unknown code guarantees for every object of a type, however it ends (two-state)
	AbruptRely   []*Clause // what unknown code leaves behind when it panics (two-state, over a held value)
	AbruptHavoc  []string  // "T.f": jspreserved only on normal completion
	Macros       map[string]string
	Constructors [][2]string          // type name, function (RelString) allowed to store to its stable fields
	TypeInv      [][3]string          // pkgDir, type ("*T" or "T"), spec function
	CreateInv    [][3]string          // pkgDir, type name, spec function
	ByFunc       map[string]*Contract // key: pkgpath + "." + Func
	Axioms       []*Clause
	Stable       []string // "T.f"
	ImmutableImpl [][]string // pkgDir, interface name, files whose functions may build the implementations
	PublishedBy   [][]string // pkgDir, T.f, T.flag, functions that establish the flag
	JSPreserved  []string // "T.f"
	Extern       map[string]bool
	All          []*Contract
	Files        []string
	Errors       []string
	Scan         []string // occurrences of assume/trusted/axiom for the evidence
}

var recoveredRe = regexp.MustCompile(`\brecovered\b`)

var clauseRe = regexp.MustCompile(`^(requires|assigns_abrupt|ensures_panic|ensures_abrupt_assumed|ensures_abrupt|ensures_assumed|ensures|assigns|safe|bounds|pure|trusted|inline|uninterpreted|overflow-checked|wrap64|nopanic|maypanic|script|sweep-callers|ghost|capture|exitvars|freevars|timeout|props|replay_assume|replay|observe)\b\s*(.*)$`)
var labelRe = regexp.MustCompile(`\s+\[([A-Za-z0-9_:.#+\-]+)\]\s*$`)

// parseContractFile reads one contract file.
func parseContractFile(cs *ContractSet, path, pkgDir string) {
	data, err := os.ReadFile(path)
	if err != nil {
		cs.Errors = append(cs.Errors, err.Error())
		return
	}
	cs.Files = append(cs.Files, path)
	var cur *Contract
	var lastClause *Clause
	lastMacro := ""
	lines := strings.Split(string(data), "\n")
	pkgName := ""
	for ln, raw := range lines {
		l := strings.TrimSpace(raw)
		if strings.HasPrefix(l, "package ") {
			pkgName = strings.TrimSpace(strings.TrimPrefix(l, "package "))
		}
		if !strings.HasPrefix(l, "//@") {
			if !strings.HasPrefix(l, "//") {
				cur = nil
			}
			continue
		}
		l = strings.TrimSpace(strings.TrimPrefix(l, "//@"))
		if l == "" {
			continue
		}
		if i := strings.Index(l, " //"); i >= 0 { // trailing comment
			l = strings.TrimSpace(l[:i])
		}
		if strings.HasPrefix(l, "+") { // continuation of the previous clause
			if lastClause != nil {
				lastClause.Text += " " + strings.TrimSpace(l[1:])
			} else if lastMacro != "" {
				cs.Macros[lastMacro] += " " + strings.TrimSpace(l[1:])
			}
			continue
		}
		lastClause = nil
		lastMacro = ""
		mk := func(kind, text string) *Clause {
			c := &Clause{Kind: kind, Text: text, File: path, Line: ln + 1, Owner: cur}
			if m := labelRe.FindStringSubmatchIndex(text); m != nil {
				c.Label = text[m[2]:m[3]]
				c.Text = strings.TrimSpace(text[:m[0]])
			}
			lastClause = c
			return c
		}
		switch {
		case strings.HasPrefix(l, "func "), strings.HasPrefix(l, "iface "):
			cur = &Contract{PkgDir: pkgDir, PkgName: pkgName, Loops: map[int]*LoopSpec{}, Flags: map[string]bool{}, File: path, Line: ln + 1}
			if strings.HasPrefix(l, "iface ") {
				cur.IsIface = true
				l = "iface " + strings.TrimSpace(strings.TrimPrefix(l, "iface "))
				cur.Func = l
			} else {
				rest := strings.Fields(strings.TrimPrefix(l, "func "))
				cur.Func = rest[0]
				for _, f := range rest[1:] {
					cur.Flags[f] = true
				}
			}
			cs.All = append(cs.All, cur)
		case strings.HasPrefix(l, "axiom "):
			c := mk("axiom", strings.TrimPrefix(l, "axiom "))
			c.Owner = &Contract{PkgDir: pkgDir, PkgName: pkgName, Func: "axiom", File: path}
			cs.Axioms = append(cs.Axioms, c)
			cs.Scan = append(cs.Scan, fmt.Sprintf("axiom %s (%s:%d)", c.Text, filepath.Base(path), ln+1))
		case strings.HasPrefix(l, "onceonly "):
			// onceonly <function> ...: the function is only ever handed to (*sync.Once).Do
			for _, f := range strings.Fields(strings.TrimPrefix(l, "onceonly ")) {
				cs.OnceOnly = append(cs.OnceOnly, pkgDir+"|"+f)
			}
		case strings.HasPrefix(l, "atomiconly "):
			for _, f := range strings.Fields(strings.TrimPrefix(l, "atomiconly ")) {
				cs.AtomicOnly = append(cs.AtomicOnly, pkgDir+"|"+f)
			}
		case strings.HasPrefix(l, "guarded "):
			f := strings.Fields(strings.TrimPrefix(l, "guarded "))
			if len(f) == 2 {
				cs.Guarded = append(cs.Guarded, [3]string{pkgDir, f[0], f[1]})
			}
		case strings.HasPrefix(l, "define "):
			rest := strings.TrimPrefix(l, "define ")
			if eq := strings.Index(rest, "="); eq > 0 {
				if cs.Macros == nil {
					cs.Macros = map[string]string{}
				}
				cs.Macros[strings.TrimSpace(rest[:eq])] = strings.TrimSpace(rest[eq+1:])
				lastMacro = strings.TrimSpace(rest[:eq])
			}
		case strings.HasPrefix(l, "constructor-of "):
			f := strings.Fields(strings.TrimPrefix(l, "constructor-of "))
			if len(f) >= 2 {
				for _, fn := range f[1:] {
					cs.Constructors = append(cs.Constructors, [2]string{f[0], fn})
				}
			}
		case strings.HasPrefix(l, "abrupthavoc "):
			for _, f := range strings.Fields(strings.TrimPrefix(l, "abrupthavoc ")) {
				cs.AbruptHavoc = append(cs.AbruptHavoc, pkgDir+"|"+f)
			}
			cs.Scan = append(cs.Scan, fmt.Sprintf("assumed: script execution that ends in a panic may change %s only as the abruptrely clauses say (%s:%d)", strings.TrimPrefix(l, "abrupthavoc "), filepath.Base(path), ln+1))
		case strings.HasPrefix(l, "scriptrely "):
			// scriptrely <type> <var> <two-state clause>: assumed of unknown code for every object of the type
			f := strings.Fields(strings.TrimPrefix(l, "scriptrely "))
			if len(f) >= 3 {
				c := mk("scriptrely", strings.Join(f[2:], " "))
				c.Owner = &Contract{PkgDir: pkgDir, PkgName: pkgName, Func: "scriptrely", File: path}
				c.ObsName, c.ObsType = f[1], f[0]
				cs.ScriptRely = append(cs.ScriptRely, c)
				cs.Scan = append(cs.Scan, fmt.Sprintf("assumed: across unknown code every existing %s satisfies %s (%s:%d)", f[0], strings.Join(f[2:], " "), filepath.Base(path), ln+1))
			}
		case strings.HasPrefix(l, "abruptrely "):
			// abruptrely <type> <var> <two-state clause>
			f := strings.Fields(strings.TrimPrefix(l, "abruptrely "))
			if len(f) >= 3 {
				c := mk("abruptrely", strings.Join(f[2:], " "))
				c.Owner = &Contract{PkgDir: pkgDir, PkgName: pkgName, Func: "abruptrely", File: path}
				c.ObsName, c.ObsType = f[1], f[0]
				cs.AbruptRely = append(cs.AbruptRely, c)
				cs.Scan = append(cs.Scan, fmt.Sprintf("assumed: when unknown code panics, every existing %s satisfies %s (%s:%d)", f[0], strings.Join(f[2:], " "), filepath.Base(path), ln+1))
			}
		case strings.HasPrefix(l, "typeinvq "):
			// typeinvq <type> <var> <clause> : quantified type invariant (rely), clause over <var>
			f := strings.Fields(strings.TrimPrefix(l, "typeinvq "))
			if len(f) >= 3 {
				c := mk("typeinv", strings.Join(f[2:], " "))
				c.Owner = &Contract{PkgDir: pkgDir, PkgName: pkgName, Func: "typeinv", File: path}
				c.ObsName, c.ObsType = f[1], f[0]
				cs.TypeInvQ = append(cs.TypeInvQ, c)
				cs.Scan = append(cs.Scan, fmt.Sprintf("rely: every existing %s satisfies %s (%s:%d)", f[0], strings.Join(f[2:], " "), filepath.Base(path), ln+1))
			}
		case strings.HasPrefix(l, "typeinv "):
			f := strings.Fields(strings.TrimPrefix(l, "typeinv "))
			if len(f) == 2 {
				cs.TypeInv = append(cs.TypeInv, [3]string{pkgDir, f[0], f[1]})
				cs.Scan = append(cs.Scan, fmt.Sprintf("rely: every existing %s satisfies %s (guaranteed by the contracts of its constructors and the stable-field store scan) (%s:%d)", f[0], f[1], filepath.Base(path), ln+1))
			}
		case strings.HasPrefix(l, "createinv "):
			f := strings.Fields(strings.TrimPrefix(l, "createinv "))
			if len(f) == 2 {
				cs.CreateInv = append(cs.CreateInv, [3]string{pkgDir, f[0], f[1]})
			}
		case strings.HasPrefix(l, "extern "):
			// extern <qualified function> ... : assumed contract of a function outside the verified
			// packages (standard library, sibling package): it reads its arguments and returns a
			// value, it does not touch any state this engine models
			for _, f := range strings.Fields(strings.TrimPrefix(l, "extern ")) {
				if cs.Extern == nil {
					cs.Extern = map[string]bool{}
				}
				cs.Extern[f] = true
				cs.Scan = append(cs.Scan, fmt.Sprintf("assumed: %s does not modify modelled state; its result is unconstrained (%s:%d)", f, filepath.Base(path), ln+1))
			}
		case strings.HasPrefix(l, "publishedby "):
			// publishedby T.f T.flag via F...: a lazily filled field may only be read after the atomic flag
			// that publishes it was seen set, or after one of the listed functions (which wait for the
			// once-only initialisation) was called on the same object
			f := strings.Fields(strings.TrimPrefix(l, "publishedby "))
			if len(f) >= 2 {
				ent := []string{pkgDir, f[0], f[1]}
				for _, x := range f[2:] {
					if x != "via" {
						ent = append(ent, x)
					}
				}
				cs.PublishedBy = append(cs.PublishedBy, ent)
			} else {
				cs.Errors = append(cs.Errors, fmt.Sprintf("%s:%d: bad publishedby directive", path, ln+1))
			}
		case strings.HasPrefix(l, "immutable-impl "):
			// immutable-impl <Interface> built-in <file>...: no function outside the listed files stores to a
			// field of a struct type implementing the interface (or into a map/slice held in such a field),
			// except through an object it has just allocated
			f := strings.Fields(strings.TrimPrefix(l, "immutable-impl "))
			if len(f) >= 3 && f[1] == "built-in" {
				cs.ImmutableImpl = append(cs.ImmutableImpl, append([]string{pkgDir, f[0]}, f[2:]...))
			} else {
				cs.Errors = append(cs.Errors, fmt.Sprintf("%s:%d: bad immutable-impl directive", path, ln+1))
			}
		case strings.HasPrefix(l, "stable "):
			for _, f := range strings.Fields(strings.TrimPrefix(l, "stable ")) {
				cs.Stable = append(cs.Stable, pkgDir+"|"+f)
			}
		case strings.HasPrefix(l, "jspreserved "):
			for _, f := range strings.Fields(strings.TrimPrefix(l, "jspreserved ")) {
				cs.JSPreserved = append(cs.JSPreserved, pkgDir+"|"+f)
			}
			cs.Scan = append(cs.Scan, fmt.Sprintf("assumed: script execution preserves %s (%s:%d)", strings.TrimPrefix(l, "jspreserved "), filepath.Base(path), ln+1))
		case strings.HasPrefix(l, "site "):
			if cur == nil {
				cs.Errors = append(cs.Errors, fmt.Sprintf("%s:%d: site clause outside func", path, ln+1))
				continue
			}
			f := strings.Fields(l)
			if len(f) < 4 {
				cs.Errors = append(cs.Errors, fmt.Sprintf("%s:%d: bad site clause", path, ln+1))
				continue
			}
			key, kind := f[1], f[2]
			body := strings.TrimSpace(l[strings.Index(l, kind)+len(kind):])
			var ss *SiteSpec
			for _, x := range cur.Sites {
				if x.Key == key {
					ss = x
				}
			}
			if ss == nil {
				ss = &SiteSpec{Key: key}
				cur.Sites = append(cur.Sites, ss)
			}
			switch kind {
			case "vars":
				ss.Vars = append(ss.Vars, parseParams(body)...)
			case "requires":
				ss.Requires = append(ss.Requires, mk("site", body))
			default:
				cs.Errors = append(cs.Errors, fmt.Sprintf("%s:%d: bad site clause kind %s", path, ln+1, kind))
			}
		case strings.HasPrefix(l, "loop "):
			if cur == nil {
				cs.Errors = append(cs.Errors, fmt.Sprintf("%s:%d: loop clause outside func", path, ln+1))
				continue
			}
			var n int
			var kind string
			rest := strings.TrimPrefix(l, "loop ")
			if _, err := fmt.Sscanf(rest, "%d %s", &n, &kind); err != nil {
				cs.Errors = append(cs.Errors, fmt.Sprintf("%s:%d: bad loop clause", path, ln+1))
				continue
			}
			idx := strings.Index(rest, kind)
			body := strings.TrimSpace(rest[idx+len(kind):])
			ls := cur.Loops[n]
			if ls == nil {
				ls = &LoopSpec{N: n}
				cur.Loops[n] = ls
			}
			switch kind {
			case "vars":
				ls.Vars = append(ls.Vars, parseParams(body)...)
			case "invariant":
				c := mk("invariant", body)
				c.Loop = n
				ls.Invariants = append(ls.Invariants, c)
			case "decreases":
				c := mk("decreases", body)
				c.Loop = n
				ls.Decreases = c
			default:
				cs.Errors = append(cs.Errors, fmt.Sprintf("%s:%d: bad loop clause kind %s", path, ln+1, kind))
			}
		default:
			m := clauseRe.FindStringSubmatch(l)
			if m == nil || cur == nil {
				cs.Errors = append(cs.Errors, fmt.Sprintf("%s:%d: cannot parse clause %q", path, ln+1, l))
				continue
			}
			switch m[1] {
			case "requires":
				cur.Requires = append(cur.Requires, mk("requires", m[2]))
			case "ensures":
				cur.Ensures = append(cur.Ensures, mk("ensures", m[2]))
			case "ensures_panic":
				cur.EnsuresPanic = append(cur.EnsuresPanic, mk("ensures_panic", m[2]))
			case "ensures_abrupt":
				cur.EnsuresAbrupt = append(cur.EnsuresAbrupt, mk("ensures_abrupt", m[2]))
			case "ensures_assumed", "ensures_abrupt_assumed":
				// a postcondition callers may use but the body is not checked against: an assumption
				// about code this engine cannot follow (the compiled program the run loop executes)
				c := mk(strings.TrimSuffix(m[1], "_assumed"), m[2])
				c.Assumed = true
				if m[1] == "ensures_assumed" {
					cur.Ensures = append(cur.Ensures, c)
				} else {
					cur.EnsuresAbrupt = append(cur.EnsuresAbrupt, c)
				}
				cs.Scan = append(cs.Scan, fmt.Sprintf("assumed postcondition of %s: %s (%s:%d)", cur.Func, m[2], filepath.Base(path), ln+1))
			case "assigns":
				for _, d := range splitTop(m[2], ',') {
					cur.Assigns = append(cur.Assigns, mk("assigns", strings.TrimSpace(d)))
				}
			case "assigns_abrupt":
				// designators that apply to panicking exits only (in addition to the assigns clause)
				for _, d := range splitTop(m[2], ',') {
					c := mk("assigns", strings.TrimSpace(d))
					c.AbruptOnly = true
					cur.Assigns = append(cur.Assigns, c)
				}
			case "ghost":
				cur.Ghost = append(cur.Ghost, parseParams(m[2])...)
			case "capture":
				// capture <name> <type> = <callee>#<n> : names the result of the n-th call to callee
				eq := strings.Index(m[2], "=")
				ps := []Param{}
				if eq > 0 {
					ps = parseParams(strings.TrimSpace(m[2][:eq]))
				}
				if len(ps) != 1 {
					cs.Errors = append(cs.Errors, fmt.Sprintf("%s:%d: bad capture clause", path, ln+1))
					continue
				}
				cur.Ghost = append(cur.Ghost, ps[0])
				cur.Captures = append(cur.Captures, [2]string{ps[0].Name, strings.TrimSpace(m[2][eq+1:])})
			case "timeout":
				fmt.Sscanf(m[2], "%d", &cur.TimeoutS)
			case "freevars":
				// captured variables of a function literal (contract on "Outer$N"): value at entry
				cur.FreeVars = append(cur.FreeVars, parseParams(m[2])...)
			case "exitvars":
				// local variables an ensures clause may mention (their value at the return)
				cur.ExitVars = append(cur.ExitVars, parseParams(m[2])...)
			case "props":
				cur.Props = append(cur.Props, strings.Fields(m[2])...)
			case "replay":
				cur.Replay = strings.TrimSpace(m[2])
			case "replay_assume":
				cur.ReplayAssume = append(cur.ReplayAssume, mk("replay_assume", m[2]))
			case "observe":
				// observe <name> <type> = <expr>
				eq := strings.Index(m[2], "=")
				if eq < 0 {
					cs.Errors = append(cs.Errors, fmt.Sprintf("%s:%d: bad observe clause", path, ln+1))
					continue
				}
				ps := parseParams(strings.TrimSpace(m[2][:eq]))
				if len(ps) != 1 {
					cs.Errors = append(cs.Errors, fmt.Sprintf("%s:%d: bad observe clause", path, ln+1))
					continue
				}
				c := mk("observe", strings.TrimSpace(m[2][eq+1:]))
				c.ObsName, c.ObsType = ps[0].Name, ps[0].Type
				cur.Observe = append(cur.Observe, c)
			default:
				cur.Flags[m[1]] = true
				if m[1] == "trusted" {
					cs.Scan = append(cs.Scan, fmt.Sprintf("trusted contract (assumed, body not checked): %s (%s:%d)", cur.Func, filepath.Base(path), ln+1))
				}
			}
		}
	}
}

// parseParams parses "i int, l uint32" or "i, j int".
func parseParams(s string) []Param {
	var out []Param
	var pendingNames []string
	for _, part := range splitTop(s, ',') {
		part = strings.TrimSpace(part)
		if part == "" {
			continue
		}
		i := strings.IndexAny(part, " \t")
		if i < 0 {
			pendingNames = append(pendingNames, part)
			continue
		}
		name, typ := part[:i], strings.TrimSpace(part[i:])
		for _, n := range pendingNames {
			out = append(out, Param{n, typ})
		}
		pendingNames = nil
		out = append(out, Param{name, typ})
	}
	return out
}

// splitTop splits s on sep at bracket depth 0.
func splitTop(s string, sep byte) []string {
	var out []string
	depth, start := 0, 0
	for i := 0; i < len(s); i++ {
		switch s[i] {
		case '(', '[', '{':
			depth++
		case ')', ']', '}':
			depth--
		case '"', '\'', '`':
			q := s[i]
			for i++; i < len(s) && s[i] != q; i++ {
				if s[i] == '\\' {
					i++
				}
			}
		default:
			if s[i] == sep && depth == 0 {
				out = append(out, s[start:i])
				start = i + 1
			}
		}
	}
	return append(out, s[start:])
}

// findTop returns the index of the first occurrence of pat at bracket depth 0, or -1.
func findTop(s, pat string) int {
	depth := 0
	for i := 0; i < len(s); i++ {
		switch s[i] {
		case '(', '[', '{':
			depth++
		case ')', ']', '}':
			depth--
		case '"', '\'', '`':
			q := s[i]
			for i++; i < len(s) && s[i] != q; i++ {
				if s[i] == '\\' {
					i++
				}
			}
		default:
			if depth == 0 && strings.HasPrefix(s[i:], pat) {
				return i
			}
		}
	}
	return -1
}

// rewriteImplies turns `A ==> B` into `(!(A) || (B))` (right associative), at every nesting level.
func rewriteImplies(s string) string {
	if i := findTop(s, "==>"); i >= 0 {
		return "(!(" + rewriteImplies(strings.TrimSpace(s[:i])) + ") || (" + rewriteImplies(strings.TrimSpace(s[i+3:])) + "))"
	}
	// descend into bracket groups
	var b strings.Builder
	for i := 0; i < len(s); i++ {
		c := s[i]
		if c == '"' || c == '\'' || c == '`' {
			j := i + 1
			for ; j < len(s) && s[j] != c; j++ {
				if s[j] == '\\' {
					j++
				}
			}
			if j >= len(s) {
				j = len(s) - 1
			}
			b.WriteString(s[i : j+1])
			i = j
			continue
		}
		if c == '(' || c == '[' || c == '{' {
			depth := 1
			j := i + 1
			for ; j < len(s) && depth > 0; j++ {
				switch s[j] {
				case '(', '[', '{':
					depth++
				case ')', ']', '}':
					depth--
				}
			}
			inner := s[i+1 : j-1]
			b.WriteByte(c)
			if strings.Contains(inner, "==>") {
				parts := splitTop(inner, ',')
				for k, p := range parts {
					if k > 0 {
						b.WriteByte(',')
					}
					b.WriteString(rewriteImplies(p))
				}
			} else {
				b.WriteString(inner)
			}
			b.WriteByte(s[j-1])
			i = j - 1
			continue
		}
		b.WriteByte(c)
	}
	return b.String()
}

var oldRe = regexp.MustCompile(`\bold\(`)
var sameSliceRe = regexp.MustCompile(`\bsameslice\(`)
var sameRe = regexp.MustCompile(`\bsame\(`)
var sliceOffRe = regexp.MustCompile(`\bsliceoff\(`)
var sameArrRe = regexp.MustCompile(`\bsamearray\(`)
var newArrRe = regexp.MustCompile(`\bnewarray\(`)
var lastLoadRe = regexp.MustCompile(`\blastload\(`)

// normalizeClause hoists forall binders and rewrites ==> and old().
var macroRe = regexp.MustCompile(`@([A-Za-z_][A-Za-z0-9_]*)`)
var curMacros map[string]string

func normalizeClause(c *Clause) error {
	t := strings.TrimSpace(c.Text)
	for i := 0; i < 4 && strings.Contains(t, "@"); i++ {
		t = macroRe.ReplaceAllStringFunc(t, func(m string) string {
			if v, ok := curMacros[m[1:]]; ok {
				if strings.HasPrefix(v, "forall ") {
					return v
				}
				return "(" + v + ")"
			}
			return m
		})
	}
	for {
		if strings.HasPrefix(t, "forall ") {
			i := strings.Index(t, "::")
			if i < 0 {
				return fmt.Errorf("forall without ::")
			}
			c.Bound = append(c.Bound, parseParams(strings.TrimSpace(t[len("forall "):i]))...)
			t = strings.TrimSpace(t[i+2:])
			continue
		}
		if i := findTop(t, "==>"); i >= 0 {
			rhs := strings.TrimSpace(t[i+3:])
			if strings.HasPrefix(rhs, "forall ") {
				j := strings.Index(rhs, "::")
				if j < 0 {
					return fmt.Errorf("forall without ::")
				}
				c.Bound = append(c.Bound, parseParams(strings.TrimSpace(rhs[len("forall "):j]))...)
				t = t[:i] + "==> (" + strings.TrimSpace(rhs[j+2:]) + ")"
				continue
			}
		}
		break
	}
	if strings.Contains(t, "forall ") && strings.Contains(t, "::") {
		return fmt.Errorf("nested forall is not supported: %s", c.Text)
	}
	t = rewriteImplies(t)
	t = oldRe.ReplaceAllString(t, "__vc_old(")
	t = sameSliceRe.ReplaceAllString(t, "__vc_sameslice(")
	t = sameRe.ReplaceAllString(t, "__vc_same(")
	t = sliceOffRe.ReplaceAllString(t, "__vc_sliceoff(")
	t = sameArrRe.ReplaceAllString(t, "__vc_samearray(")
	t = newArrRe.ReplaceAllString(t, "__vc_newarray(")
	t = lastLoadRe.ReplaceAllString(t, "__vc_lastload(")
	c.Expr = t
	return nil
}

// ---- source signatures (AST)

type srcFunc struct {
	decl    *ast.FuncDecl
	file    *ast.File
	imports map[string]string // name -> path
}

type srcPkg struct {
	dir       string
	name      string
	fset      *token.FileSet
	funcs     map[string]*srcFunc // RelString -> decl
	ifaces    map[string]*ast.InterfaceType
	ifaceFile map[string]*ast.File
	imports   map[string]string // union over files: name -> path
}

func exprString(fset *token.FileSet, e ast.Expr) string {
	var b bytes.Buffer
	printer.Fprint(&b, fset, e)
	return b.String()
}

func loadSrcPkg(dir string) (*srcPkg, error) {
	sp := &srcPkg{dir: dir, fset: token.NewFileSet(), funcs: map[string]*srcFunc{}, ifaces: map[string]*ast.InterfaceType{}, ifaceFile: map[string]*ast.File{}, imports: map[string]string{}}
	ents, err := os.ReadDir(dir)
	if err != nil {
		return nil, err
	}
	for _, ent := range ents {
		n := ent.Name()
		if ent.IsDir() || !strings.HasSuffix(n, ".go") || strings.HasSuffix(n, "_test.go") {
			continue
		}
		f, err := parser.ParseFile(sp.fset, filepath.Join(dir, n), nil, parser.SkipObjectResolution)
		if err != nil {
			return nil, err
		}
		sp.name = f.Name.Name
		imps := map[string]string{}
		for _, im := range f.Imports {
			p := strings.Trim(im.Path.Value, `"`)
			name := filepath.Base(p)
			if im.Name != nil {
				name = im.Name.Name
			}
			if name == "_" || name == "." {
				continue
			}
			// regexp2 style paths keep their base; version suffixes are not used by goja
			imps[name] = p
			sp.imports[name] = p
		}
		for _, d := range f.Decls {
			switch d := d.(type) {
			case *ast.FuncDecl:
				key := d.Name.Name
				if d.Recv != nil && len(d.Recv.List) == 1 {
					key = "(" + exprString(sp.fset, d.Recv.List[0].Type) + ")." + d.Name.Name
				}
				sp.funcs[key] = &srcFunc{decl: d, file: f, imports: imps}
			case *ast.GenDecl:
				for _, s := range d.Specs {
					if ts, ok := s.(*ast.TypeSpec); ok {
						if it, ok := ts.Type.(*ast.InterfaceType); ok {
							sp.ifaces[ts.Name.Name] = it
							sp.ifaceFile[ts.Name.Name] = f
						}
					}
				}
			}
		}
	}
	return sp, nil
}

func fieldListParams(fset *token.FileSet, fl *ast.FieldList, prefix string) []Param {
	var out []Param
	if fl == nil {
		return out
	}
	n := 0
	for _, f := range fl.List {
		ts := exprString(fset, f.Type)
		if strings.HasPrefix(ts, "...") {
			ts = "[]" + ts[3:]
		}
		if len(f.Names) == 0 {
			out = append(out, Param{fmt.Sprintf("%s%d", prefix, n), ts})
			n++
			continue
		}
		for _, nm := range f.Names {
			name := nm.Name
			if name == "_" {
				name = fmt.Sprintf("%s%d", prefix, n)
			}
			out = append(out, Param{name, ts})
			n++
		}
	}
	return out
}

// resolveSignature fills Params/Results of a contract from the source.
func (c *Contract) resolveSignature(sp *srcPkg) error {
	if c.IsIface {
		// "iface T.M"
		tm := strings.TrimPrefix(c.Func, "iface ")
		i := strings.LastIndex(tm, ".")
		if i < 0 {
			return fmt.Errorf("bad iface contract name %s", c.Func)
		}
		tn, mn := tm[:i], tm[i+1:]
		it := sp.ifaces[tn]
		if it == nil {
			return fmt.Errorf("interface %s not found", tn)
		}
		for _, m := range it.Methods.List {
			ft, ok := m.Type.(*ast.FuncType)
			if !ok || len(m.Names) == 0 || m.Names[0].Name != mn {
				continue
			}
			c.Params = append([]Param{{"self", tn}}, fieldListParams(sp.fset, ft.Params, "p")...)
			c.Results = fieldListParams(sp.fset, ft.Results, "result")
			if len(c.Results) == 1 && c.Results[0].Name == "result0" {
				c.Results[0].Name = "result"
			}
			return nil
		}
		return fmt.Errorf("method %s not found in interface %s (embedded interfaces are not searched)", mn, tn)
	}
	if i := strings.Index(c.Func, "$"); i > 0 {
		// a function literal, named as go/ssa names it: Outer$N (the N-th literal directly inside Outer,
		// in source order), Outer$N$M ...
		sf := sp.funcs[c.Func[:i]]
		if sf == nil {
			return fmt.Errorf("function %s not found in %s", c.Func[:i], sp.dir)
		}
		var node ast.Node = sf.decl.Body
		for _, part := range strings.Split(c.Func[i+1:], "$") {
			var want, seen int
			fmt.Sscanf(part, "%d", &want)
			var found *ast.FuncLit
			ast.Inspect(node, func(n ast.Node) bool {
				if fl, ok := n.(*ast.FuncLit); ok && n != node {
					seen++
					if seen == want {
						found = fl
					}
					return false
				}
				return found == nil
			})
			if found == nil {
				return fmt.Errorf("function literal %s not found in %s", c.Func, sp.dir)
			}
			node = found
		}
		fl := node.(*ast.FuncLit)
		c.Params = append(c.Params, fieldListParams(sp.fset, fl.Type.Params, "p")...)
		c.Params = append(c.Params, c.FreeVars...)
		c.Results = fieldListParams(sp.fset, fl.Type.Results, "result")
		if len(c.Results) == 1 && c.Results[0].Name == "result0" {
			c.Results[0].Name = "result"
		}
		return nil
	}
	sf := sp.funcs[c.Func]
	if sf == nil {
		return fmt.Errorf("function %s not found in %s", c.Func, sp.dir)
	}
	d := sf.decl
	if d.Recv != nil {
		r := fieldListParams(sp.fset, d.Recv, "recv")
		c.Params = append(c.Params, r...)
	}
	c.Params = append(c.Params, fieldListParams(sp.fset, d.Type.Params, "p")...)
	c.Results = fieldListParams(sp.fset, d.Type.Results, "result")
	if len(c.Results) == 1 && c.Results[0].Name == "result0" {
		c.Results[0].Name = "result"
	}
	return nil
}

// ---- overlay generation

var identRe = regexp.MustCompile(`\b([A-Za-z_][A-Za-z0-9_]*)\.`)

func (cs *ContractSet) genOverlay(sp *srcPkg, contracts []*Contract, axioms []*Clause) (string, error) {
	curMacros = cs.Macros
	var body strings.Builder
	used := map[string]bool{}
	n := 0
	noteImports := func(text string) {
		for _, m := range identRe.FindAllStringSubmatchIndex(text, -1) {
			name := text[m[2]:m[3]]
			if m[2] > 0 && text[m[2]-1] == '.' {
				continue // a field selector that happens to be spelled like a package
			}
			if _, ok := sp.imports[name]; ok {
				used[name] = true
			}
		}
	}
	emit := func(cl *Clause, params []Param, ret, expr string) {
		n++
		cl.FnName = fmt.Sprintf("__vc_%d", n)
		cl.Names = nil
		var ps []string
		seen := map[string]bool{}
		for _, p := range params {
			if seen[p.Name] {
				continue
			}
			seen[p.Name] = true
			ps = append(ps, p.Name+" "+p.Type)
			cl.Names = append(cl.Names, p.Name)
			noteImports(p.Type)
		}
		noteImports(expr)
		fmt.Fprintf(&body, "//line %s:%d\nfunc %s(%s) %s { return %s }\n\n", cl.File, cl.Line, cl.FnName, strings.Join(ps, ", "), ret, expr)
	}
	for _, c := range contracts {
		if err := c.resolveSignature(sp); err != nil {
			c.Errors = append(c.Errors, err.Error())
			continue
		}
		base := append([]Param{}, c.Params...)
		withGhost := append(append([]Param{}, base...), c.Ghost...)
		withRes := append(append(append([]Param{}, withGhost...), c.Results...), c.ExitVars...)
		do := func(cl *Clause, params []Param) {
			if err := normalizeClause(cl); err != nil {
				c.Errors = append(c.Errors, fmt.Sprintf("%s:%d: %v", cl.File, cl.Line, err))
				return
			}
			ret := "bool"
			if cl.Kind == "decreases" {
				ret = "int"
				cl.Expr = "int(" + cl.Expr + ")"
			}
			if recoveredRe.MatchString(cl.Text) {
				// the value recover() returns in a function written to be deferred (nil: not panicking)
				params = append(append([]Param{}, params...), Param{"recovered", "interface{}"})
			}
			emit(cl, append(append([]Param{}, params...), cl.Bound...), ret, cl.Expr)
		}
		for _, cl := range c.Requires {
			do(cl, base)
		}
		for _, cl := range c.Ensures {
			do(cl, withRes)
		}
		for _, cl := range c.EnsuresPanic {
			do(cl, append(append([]Param{}, withGhost...), Param{"panicValue", "interface{}"}))
		}
		for _, cl := range c.EnsuresAbrupt {
			do(cl, append(append(append([]Param{}, withGhost...), c.ExitVars...), Param{"panicValue", "interface{}"}))
		}
		var loopNs []int
		for k := range c.Loops {
			loopNs = append(loopNs, k)
		}
		sort.Ints(loopNs)
		for _, k := range loopNs {
			ls := c.Loops[k]
			ps := append(append([]Param{}, base...), ls.Vars...)
			for _, cp := range c.Captures {
				if strings.HasPrefix(cp[1], "entry ") {
					for _, g := range c.Ghost {
						if g.Name == cp[0] {
							ps = append(ps, g) // entry values are known everywhere in the function
						}
					}
				}
			}
			for _, cl := range ls.Invariants {
				do(cl, ps)
			}
			if ls.Decreases != nil {
				do(ls.Decreases, ps)
			}
		}
		for _, cl := range c.ReplayAssume {
			do(cl, base)
		}
		for _, ss := range c.Sites {
			ps := append(append([]Param{}, base...), ss.Vars...)
			for _, cl := range ss.Requires {
				do(cl, ps)
			}
		}
		for _, cl := range c.Observe {
			cl.Expr = cl.Text
			emit(cl, base, cl.ObsType, cl.Text)
		}
		// macros in frames: @NAME stands for a comma separated list of designators
		var expanded []*Clause
		for _, cl := range c.Assigns {
			t := strings.TrimSpace(cl.Text)
			if !strings.Contains(t, "@") || strings.HasPrefix(t, "nothing if ") {
				expanded = append(expanded, cl)
				continue
			}
			for i := 0; i < 4 && strings.Contains(t, "@"); i++ {
				t = macroRe.ReplaceAllStringFunc(t, func(m string) string {
					if v, ok := curMacros[m[1:]]; ok {
						return v
					}
					return m
				})
			}
			for _, d := range splitTop(t, ',') {
				c2 := *cl
				c2.Text = strings.TrimSpace(d)
				expanded = append(expanded, &c2)
			}
		}
		c.Assigns = expanded
		for _, cl := range c.Assigns {
			t := strings.TrimSpace(cl.Text)
			switch {
			case t == "all" || t == "nothing" || t == "script":
				// script: whatever script may do (everything except stable and jspreserved state), in
				// addition to the listed designators
				cl.Desig = t
			case strings.HasPrefix(t, "nothing if "):
				// conditional frame: nothing when the condition holds in the pre-state, anything otherwise
				cl.Desig = "nothing-if"
				ps := base
				if recoveredRe.MatchString(t) {
					ps = append(append([]Param{}, base...), Param{"recovered", "interface{}"})
				}
				emit(cl, ps, "bool", rewriteImplies(strings.TrimPrefix(t, "nothing if ")))
			case strings.HasPrefix(t, "any(") && strings.HasSuffix(t, ")"):
				cl.Desig = "any"
				tf := t[4 : len(t)-1]
				i := strings.LastIndex(tf, ".")
				cl.AnyT, cl.AnyF = tf[:i], tf[i+1:]
			case strings.HasPrefix(t, "elems(") && strings.HasSuffix(t, ")"):
				cl.Desig = "elems"
				emit(cl, base, "interface{}", t[6:len(t)-1])
			case strings.HasPrefix(t, "fields(") && strings.HasSuffix(t, ")"):
				cl.Desig = "fields"
				emit(cl, base, "interface{}", t[7:len(t)-1])
			default:
				cl.Desig = "lvalue"
				emit(cl, base, "interface{}", "&("+t+")")
			}
		}
	}
	for _, cl := range append(append(append([]*Clause{}, cs.TypeInvQ...), cs.AbruptRely...), cs.ScriptRely...) {
		if cl.Owner.PkgDir != sp.dir || cl.FnName != "" {
			continue
		}
		if err := normalizeClause(cl); err != nil {
			cs.Errors = append(cs.Errors, fmt.Sprintf("%s:%d: %v", cl.File, cl.Line, err))
			continue
		}
		emit(cl, append([]Param{{cl.ObsName, cl.ObsType}}, cl.Bound...), "bool", cl.Expr)
	}
	for _, cl := range axioms {
		if err := normalizeClause(cl); err != nil {
			cs.Errors = append(cs.Errors, fmt.Sprintf("%s:%d: %v", cl.File, cl.Line, err))
			continue
		}
		emit(cl, cl.Bound, "bool", cl.Expr)
	}
	var out strings.Builder
	out.WriteString("//go:build verif\n\npackage " + sp.name + "\n\n")
	var names []string
	for k := range used {
		names = append(names, k)
	}
	sort.Strings(names)
	if len(names) > 0 {
		out.WriteString("import (\n")
		for _, k := range names {
			fmt.Fprintf(&out, "\t%s %q\n", k, sp.imports[k])
		}
		out.WriteString(")\n\n")
	}
	out.WriteString("func __vc_old[T any](x T) T { return x }\n\n")
	out.WriteString("func __vc_same[T any](a, b T) bool { return any(a) == any(b) }\n\n")
	out.WriteString("// __vc_sliceoff: index of sub's first element within whole's backing array, relative to whole's first element\n")
	out.WriteString("func __vc_sliceoff[T any](sub, whole []T) int { return cap(whole) - cap(sub) }\n\n")
	out.WriteString("// __vc_lastload: ghost - the most recent event on this path is an atomic load of *p\n")
	out.WriteString("func __vc_lastload[T any](p *T) bool { return true }\n\n")
	out.WriteString("// __vc_newarray: the slice's backing array was allocated during the call (not meaningful at run time)\n")
	out.WriteString("func __vc_newarray[T any](a []T) bool { return true }\n\n")
	out.WriteString("// __vc_samearray: the two slices share one backing array (approximated at run time by overlapping capacity ends)\n")
	out.WriteString("func __vc_samearray[T any](a, b []T) bool { return cap(a) > 0 && cap(b) > 0 && &a[:cap(a)][cap(a)-1] == &b[:cap(b)][cap(b)-1] }\n\n")
	out.WriteString("func __vc_sameslice[T any](a, b []T) bool { return len(a) == len(b) && cap(a) == cap(b) && (cap(a) == 0 || &a[:1][0] == &b[:1][0]) }\n\n")
	out.WriteString(body.String())
	return out.String(), nil
}
