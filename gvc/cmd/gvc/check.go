package main

import (
	"fmt"
	"os"
)

func cmdCheck(args []string)  { fmt.Println("not yet"); os.Exit(2) }
func cmdReplay(args []string) { fmt.Println("not yet"); os.Exit(2) }
