package main

// gvc check --property Cxx --tier quick|thorough : the registered check of one property.

import (
	"encoding/json"
	"flag"
	"fmt"
	"go/token"
	"go/types"
	"golang.org/x/tools/go/ssa"
	"os"
	"path/filepath"
	"regexp"
	"sort"
	"strconv"
	"strings"
	"time"
)

const verifDir = "/verif"

type propConfig struct {
	AtomicScan   bool     `json:"atomic_scan"`
	StableScan   bool     `json:"stable_scan"` // include the stable-field store-scan obligations
	ImmutableScan bool    `json:"immutable_scan"` // include the immutable-implementation store-scan obligations
	Property     string   `json:"property"`
	Title        string   `json:"title"`
	Lemma        string   `json:"lemma"`
	Assumptions  []string `json:"assumptions"`
	NotCovered   []string `json:"not_covered"`
	TrustedBase  []string `json:"trusted_base"`
	SweepCallers bool     `json:"sweep_callers"` // also check the preconditions of sweep-callers contracts at every call site in the package
	SweepCreate  bool     `json:"sweep_create"`  // also check every creation site of createinv types in functions without contract
	NotClaimed   []struct {
		Obligation string `json:"obligation"`
		Reason     string `json:"reason"`
	} `json:"not_claimed"`
	Claimed []string `json:"claimed"` // obligation base names that discharge on the unchanged tree
}

type knownFinding struct {
	Property   string `json:"property"`
	Obligation string `json:"obligation"`
	What       string `json:"what"`
	Status     string `json:"status"` // known | fixed
	Commit     string `json:"commit,omitempty"`
	Line       string `json:"line,omitempty"`
}

type replayFile struct {
	Property   string   `json:"property"`
	Obligation string   `json:"obligation"`
	Function   string   `json:"function"`
	Clause     string   `json:"clause"`
	Pos        string   `json:"pos"`
	Status     string   `json:"solver_status"`
	Solver     string   `json:"solver"`
	Tried      []string `json:"tried"`
	Model      string   `json:"model,omitempty"`
	SolverOut  string   `json:"solver_output,omitempty"`
	Replay     string   `json:"replay_verdict"` // reproduced | not-reproduced | no-adapter | no-model
	TestSource string   `json:"test_source,omitempty"`
	TestOutput string   `json:"test_output,omitempty"`
	Reason     string   `json:"reason,omitempty"`
}

var baseNameRe = regexp.MustCompile(`~\d+\]$`)

func baseName(ob string) string { return baseNameRe.ReplaceAllString(ob, "]") }

func cmdCheck(args []string) {
	fs := flag.NewFlagSet("check", flag.ExitOnError)
	repo := fs.String("repo", "/repo", "repository root")
	prop := fs.String("property", "", "property id")
	tier := fs.String("tier", os.Getenv("VERIF_TIER"), "quick|thorough")
	update := fs.Bool("update-claimed", false, "rewrite the claimed obligation list from this run (maintainer use, unchanged tree only)")
	keep := fs.String("keep-smt", "", "directory to keep SMT files")
	cover := fs.Bool("cover", false, "run the vacuity (cover) checks also in quick tier")
	fs.Parse(args)
	if *tier == "" {
		*tier = "quick"
	}
	seed, _ := strconv.Atoi(os.Getenv("VERIF_SEED"))
	t0 := time.Now()
	cfg := &propConfig{Property: *prop}
	if data, err := os.ReadFile(filepath.Join(verifDir, "props", *prop+".json")); err == nil {
		if err := json.Unmarshal(data, cfg); err != nil {
			fmt.Fprintln(os.Stderr, "bad props file:", err)
			os.Exit(2)
		}
	} else {
		fmt.Fprintln(os.Stderr, "no props file for", *prop)
		os.Exit(2)
	}
	var known []knownFinding
	if data, err := os.ReadFile(filepath.Join(verifDir, "known_findings.json")); err == nil {
		var kf struct {
			Findings []knownFinding `json:"findings"`
		}
		json.Unmarshal(data, &kf)
		known = kf.Findings
	}
	for _, k := range known {
		if k.Status == "known" {
			knownBase[k.Obligation] = true
		}
	}
	timeout := 20
	if *tier == "thorough" {
		timeout = 60
	}
	g, err := loadAll(*repo)
	var violations []*replayFile
	if err != nil {
		// A contract that no longer type-checks against the tree is a failed #contract-applies
		// obligation; a tree that does not build at all decides nothing.
		inContracts := false
		if g != nil {
			for _, e := range g.loadErrs {
				if strings.Contains(e, "zz_verif_") {
					inContracts = true
				}
			}
			if len(g.loadErrs) == 0 {
				inContracts = false
			}
			for _, e := range g.loadErrs {
				if !strings.Contains(e, "zz_verif_") {
					inContracts = false
				}
			}
		}
		if !inContracts {
			fmt.Println("CANNOT-CHECK: tree does not build:", err)
			os.Exit(2)
		}
		rf := &replayFile{Property: *prop, Obligation: "contracts#contract-applies", Status: "type-error", Replay: "no-model", Reason: err.Error()}
		violations = append(violations, rf)
		finish(*prop, *tier, seed, cfg, nil, nil, violations, nil, t0, 0)
		return
	}
	var frs []*FuncResult
	var todo []*Contract
	var ifaceUsed, trustedUsed []string
	for _, c := range g.cs.All {
		has := false
		for _, p := range c.Props {
			if p == *prop {
				has = true
			}
		}
		if !has {
			continue
		}
		if c.IsIface {
			if c.Flags["trusted"] {
				ifaceUsed = append(ifaceUsed, c.Func)
			} else {
				todo = append(todo, g.ifaceImpls(c)...)
			}
			continue
		}
		if c.Flags["trusted"] {
			trustedUsed = append(trustedUsed, c.Func)
			continue
		}
		if c.Flags["pure"] || c.Flags["uninterpreted"] {
			continue
		}
		todo = append(todo, c)
	}
	if cfg.SweepCreate || cfg.SweepCallers {
		todo = append(todo, g.sweepContracts("", *prop, cfg.SweepCreate)...)
	}
	frs = g.verifyAll(todo)
	notClaimed := map[string]bool{}
	for _, nc := range cfg.NotClaimed {
		notClaimed[nc.Obligation] = true
	}
	dir := *keep
	if dir == "" {
		dir, _ = os.MkdirTemp("", "gvc-smt-")
		defer os.RemoveAll(dir)
	} else {
		os.MkdirAll(dir, 0o755)
	}
	var obs []*Oblig
	pres := map[*Exec][2]string{}
	for _, fr := range frs {
		if fr.Ex != nil {
			pres[fr.Ex] = [2]string{fr.Pre, fr.PreExact}
		}
		for _, o := range fr.Obligs {
			if fr.Con.Flags["sweep"] && !(o.Kind == "create" && cfg.SweepCreate) && !(o.Kind == "pre" && sweepPre(g, o, *prop)) {
				continue
			}
			if notClaimed[baseName(o.Name)] && !*update {
				continue // (when the claimed set is recomputed everything is tried again)
			}
			obs = append(obs, o)
		}
	}
	for _, o := range obs {
		for _, k := range known {
			if k.Status == "known" && k.Obligation == baseName(o.Name) && *tier != "thorough" {
				o.TimeoutS = 4 // a listed finding only has to be seen to fail still
			}
		}
	}
	solveAll(obs, pres, timeout, 16, *tier == "thorough", dir)
	// a timeout under full load is not a verdict: obligations that ran out of time (no model, no
	// proof) get a second, nearly serial attempt with three times the budget
	if !*update {
		var again []*Oblig
		for _, o := range obs {
			// (also retried: a "sat" that only the quantifier-free relaxation produced while the proof query
			// itself ran out of time - under load that is a timeout in disguise, not a refutation)
			relaxedAfterTimeout := false
			if o.Res != nil && o.Res.Status == "sat" && strings.Contains(o.Res.Solver, "(relaxed)") {
				for _, tr := range o.Res.Tried {
					if strings.Contains(tr, ":timeout:") {
						relaxedAfterTimeout = true
					}
				}
			}
			if o.Res != nil && (o.Res.Status != "unsat" && o.Res.Status != "sat" || relaxedAfterTimeout) && !knownBase[baseName(o.Name)] {
				if o.TimeoutS > 0 {
					o.TimeoutS *= 3
				} else {
					o.TimeoutS = timeout * 3
				}
				again = append(again, o)
			}
		}
		if len(again) > 0 && len(again) <= 12 {
			solveAll(again, pres, timeout*3, 2, false, dir)
		}
	}
	if cfg.AtomicScan {
		for _, o := range append(g.atomicScan(), g.onceScan()...) {
			if !notClaimed[baseName(o.Name)] || *update {
				obs = append(obs, o)
			}
		}
	}
	if cfg.StableScan {
		for _, o := range g.stableScan() {
			if !notClaimed[baseName(o.Name)] || *update {
				obs = append(obs, o)
			}
		}
	}
	if cfg.ImmutableScan {
		for _, o := range append(g.immutableScan(), g.publishedScan()...) {
			if !notClaimed[baseName(o.Name)] || *update {
				obs = append(obs, o)
			}
		}
	}
	coverN := 0
	if *tier == "thorough" || *cover {
		vac, n := coverCheck(obs, pres, 5, dir)
		coverN = n
		for _, v := range vac {
			fmt.Printf("ENGINE-ERROR: vacuous premises at %s (contradictory requires/invariants/assumptions)\n", v)
		}
		if len(vac) > 0 {
			os.Exit(2)
		}
	}
	_ = coverN

	// contract-applies: functions that left the verified subset, contracts with errors
	for _, fr := range frs {
		if len(fr.Unsupported) > 0 {
			rf := &replayFile{Property: *prop, Obligation: fr.Name + "#contract-applies", Function: fr.Name, Status: "outside-subset", Replay: "no-model", Reason: strings.Join(fr.Unsupported, "; ")}
			violations = append(violations, rf)
		}
	}
	for _, er := range g.cs.Errors {
		violations = append(violations, &replayFile{Property: *prop, Obligation: "contracts#contract-applies", Status: "contract-error", Replay: "no-model", Reason: er})
	}
	// claimed obligations must all be generated
	gen := map[string]bool{}
	for _, o := range obs {
		gen[baseName(o.Name)] = true
	}
	if !*update {
		for _, cl := range cfg.Claimed {
			if !gen[cl] {
				violations = append(violations, &replayFile{Property: *prop, Obligation: cl + "#contract-applies", Status: "not-generated", Replay: "no-model", Reason: "claimed obligation was not generated from the current tree (carrier renamed/removed, or its shape left the verified subset)"})
			}
		}
	}
	var failed []*Oblig
	for _, o := range obs {
		if o.Res == nil || o.Res.Status != "unsat" {
			failed = append(failed, o)
		}
	}
	var knownLines []string
	for _, o := range failed {
		rf := &replayFile{Property: *prop, Obligation: o.Name, Function: o.Func, Pos: o.Pos, Status: o.Res.Status, Solver: o.Res.Solver, Tried: o.Res.Tried, Model: o.Res.Model}
		if o.Clause != nil {
			rf.Clause = o.Clause.Kind + " " + o.Clause.Text
		}
		if o.Res.Status != "sat" {
			out := o.Res.Output
			if len(out) > 2000 {
				out = out[:2000]
			}
			rf.SolverOut = out
		}
		g.replay(o, rf)
		isKnown := false
		for _, k := range known {
			if k.Status == "known" && k.Obligation == baseName(o.Name) {
				isKnown = true
				knownObl[baseName(o.Name)] = true
				knownLines = append(knownLines, fmt.Sprintf("KNOWN-FINDING: property=%s %s (%s)", *prop, k.What, k.Obligation))
			}
		}
		if !isKnown {
			violations = append(violations, rf)
		}
	}
	if *update {
		// re-time everything that failed or was slow, one obligation at a time (clean timing)
		var again []*Oblig
		for _, o := range obs {
			if o.ex == nil {
				continue
			}
			if o.Res == nil || o.Res.Status == "timeout" || o.Res.Status == "unknown" || o.Res.Status == "unsat" && o.Res.TimeS > 4 {
				again = append(again, o)
			}
		}
		for _, o := range again {
			solveAll([]*Oblig{o}, pres, timeout, 1, false, dir)
		}
		var names []string
		seen := map[string]bool{}
		slow := map[string]bool{}
		failedBase := map[string]bool{}
		for _, o := range obs {
			limit := 10.0
			if o.TimeoutS > 20 {
				limit = float64(o.TimeoutS) / 2
			}
			if o.Res != nil && o.Res.Status == "unsat" && o.Res.TimeS > limit {
				fmt.Printf("not claimed (slow, %.1fs): %s\n", o.Res.TimeS, o.Name)
				slow[baseName(o.Name)] = true
			}
		}
		for _, o := range obs {
			if o.Res == nil || o.Res.Status != "unsat" {
				slow[baseName(o.Name)] = true // some obligation of this clause is not discharged: not claimed
				failedBase[baseName(o.Name)] = true
			}
		}
		for _, o := range obs {
			if o.Res != nil && o.Res.Status == "unsat" && !seen[baseName(o.Name)] && !slow[baseName(o.Name)] {
				seen[baseName(o.Name)] = true
				names = append(names, baseName(o.Name))
			}
		}
		sort.Strings(names)
		// an obligation that discharges now is claimed, whatever an older list said
		generated := map[string]bool{}
		for _, o := range obs {
			generated[baseName(o.Name)] = true
		}
		kept := cfg.NotClaimed[:0]
		for _, nc := range cfg.NotClaimed {
			// (an entry whose obligation is no longer generated at all is dropped as well)
			if !seen[nc.Obligation] && generated[nc.Obligation] {
				kept = append(kept, nc)
			}
		}
		cfg.NotClaimed = kept
		have := map[string]bool{}
		for _, nc := range cfg.NotClaimed {
			have[nc.Obligation] = true
		}
		for _, o := range obs {
			bn := baseName(o.Name)
			isKnownF := false
			for _, k := range known {
				if k.Status == "known" && k.Obligation == bn {
					isKnownF = true
				}
			}
			if isKnownF {
				continue
			}
			if (o.Res == nil || o.Res.Status != "unsat" || slow[bn]) && !have[bn] && !seen[bn] {
				have[bn] = true
				reason := "not discharged on the unchanged tree when the claimed set was recorded (" + o.Res.Status + "): needs an invariant that is not contracted yet; undecided, not a violation"
				if slow[bn] && !failedBase[bn] {
					reason = "discharges, but too slowly to be claimed (unstable near the timeout)"
				}
				cfg.NotClaimed = append(cfg.NotClaimed, struct {
					Obligation string `json:"obligation"`
					Reason     string `json:"reason"`
				}{bn, reason})
			}
		}
		cfg.Claimed = names
		data, _ := json.MarshalIndent(cfg, "", " ")
		os.WriteFile(filepath.Join(verifDir, "props", *prop+".json"), append(data, '\n'), 0o644)
		fmt.Printf("claimed set updated: %d obligation names\n", len(names))
	}
	sort.Strings(knownLines)
	prev := ""
	for _, l := range knownLines {
		if l != prev {
			fmt.Println(l)
		}
		prev = l
	}
	declaredAssumptions = g.cs.Scan
	finish(*prop, *tier, seed, cfg, frs, obs, violations, append(ifaceUsed, trustedUsed...), t0, len(knownLines))
}

var declaredAssumptions []string // cs.Scan of the loaded contract files
var knownObl = map[string]bool{}  // listed findings seen to fail in this run
var knownBase = map[string]bool{} // every listed finding (excluded from the proof counts)

func finish(prop, tier string, seed int, cfg *propConfig, frs []*FuncResult, obs []*Oblig, violations []*replayFile, assumedContracts []string, t0 time.Time, nKnown int) {
	// evidence
	discharged := 0
	byBackend := map[string]int{}
	solverTime := 0.0
	var samples []interface{}
	nObl := 0
	for _, o := range obs {
		if knownBase[baseName(o.Name)] {
			continue
		}
		nObl++
		if o.Res != nil {
			solverTime += o.Res.TimeS
			if o.Res.Status == "unsat" {
				discharged++
				byBackend[o.Res.Solver]++
			}
			if len(samples) < 12 {
				samples = append(samples, map[string]interface{}{"obligation": o.Name, "status": o.Res.Status, "solver": o.Res.Solver, "time_s": round2(o.Res.TimeS), "pos": o.Pos})
			}
		}
	}
	var funcs []string
	notes := map[string]bool{}
	var assumptions []string
	for _, fr := range frs {
		funcs = append(funcs, fr.Name)
		for _, n := range fr.Notes {
			notes[n] = true
		}
	}
	assumptions = append(assumptions, cfg.Assumptions...)
	for _, n := range sortedKeys(notes) {
		assumptions = append(assumptions, n)
	}
	for _, a := range assumedContracts {
		assumptions = append(assumptions, "assumed contract (not verified here): "+a)
	}
	// every assumption declared in the contract files (axioms, rely invariants, jspreserved/abrupt/script
	// relies, extern functions, assumed postconditions), found by scanning them on every run
	seenScan := map[string]bool{}
	for _, sc := range declaredAssumptions {
		if !seenScan[sc] {
			seenScan[sc] = true
			assumptions = append(assumptions, "declared in the contract files: "+sc)
		}
	}
	for _, nc := range cfg.NotCovered {
		assumptions = append(assumptions, "not covered: "+nc)
	}
	for _, nc := range cfg.NotClaimed {
		assumptions = append(assumptions, "undecided obligation (its clause is assumed by callers, not proved): "+nc.Obligation)
	}
	if len(samples) == 0 {
		samples = append(samples, "no obligations generated")
	}
	cov := map[string]interface{}{
		"obligations":              nObl,
		"discharged":               discharged,
		"checker_cmd":              fmt.Sprintf("/verif/bin/gvc check --property %s --tier %s", prop, tier),
		"trusted_base":             append([]string{"golang.org/x/tools/go/ssa (SSA construction)", "gvc SSA->SMT translation (guarded by must-fail mutants)", "z3 5.1.0 / z3 4.8.12 / cvc5 1.0.3"}, cfg.TrustedBase...),
		"samples":                  samples,
		"functions_under_contract": funcs,
		"obligations_by_backend":   byBackend,
		"solver_time_s":            round2(solverTime),
		"known_findings_reported":  nKnown,
		"lemma":                    cfg.Lemma,
		"not_claimed":              cfg.NotClaimed,
	}
	ev := map[string]interface{}{
		"property_id": prop,
		"tier":        tier,
		"seed":        seed,
		"level":       "proof",
		"coverage":    cov,
		"assumptions": assumptions,
		"wall_s":      round2(time.Since(t0).Seconds()),
		"violations":  len(violations),
	}
	os.MkdirAll(filepath.Join(verifDir, "evidence"), 0o755)
	data, _ := json.MarshalIndent(ev, "", " ")
	os.WriteFile(filepath.Join(verifDir, "evidence", prop+".json"), append(data, '\n'), 0o644)
	if len(violations) == 0 {
		fmt.Printf("OK property=%s obligations=%d discharged=%d known-finding-obligations=%d functions=%d wall=%.1fs\n", prop, nObl, discharged, len(knownObl), len(funcs), time.Since(t0).Seconds())
		os.Exit(0)
	}
	rdir := filepath.Join(verifDir, "replays", prop)
	os.RemoveAll(rdir)
	os.MkdirAll(rdir, 0o755)
	for _, v := range violations {
		name := sanitize(v.Obligation)
		if len(name) > 120 {
			name = name[:120]
		}
		path := filepath.Join(rdir, name+".json")
		data, _ := json.MarshalIndent(v, "", " ")
		os.WriteFile(path, append(data, '\n'), 0o644)
		suffix := ""
		if v.Replay != "reproduced" {
			suffix = " no-failing-input-found"
		}
		fmt.Printf("FAILED-OBLIGATION %s (%s; replay: %s)\n", v.Obligation, v.Status, v.Replay)
		fmt.Printf("VIOLATION property=%s replay=%s%s\n", prop, path, suffix)
	}
	os.Exit(1)
}

func round2(f float64) float64 { return float64(int(f*100+0.5)) / 100 }

func cmdReplay(args []string) {
	if len(args) < 1 {
		fmt.Fprintln(os.Stderr, "usage: gvc replay <replay.json>")
		os.Exit(2)
	}
	data, err := os.ReadFile(args[0])
	if err != nil {
		fmt.Fprintln(os.Stderr, err)
		os.Exit(2)
	}
	var rf replayFile
	json.Unmarshal(data, &rf)
	fmt.Printf("obligation: %s\nclause: %s\nsolver: %s (%s)\nmodel: %s\n", rf.Obligation, rf.Clause, rf.Status, rf.Solver, rf.Model)
	if rf.TestSource == "" {
		fmt.Println("no replay test stored:", rf.Replay, rf.Reason)
		os.Exit(1)
	}
	out, _ := runReplayTest("/repo", rf.TestSource, "")
	fmt.Println(out)
	if strings.Contains(out, "GVC-REPLAY: VIOLATED") {
		os.Exit(1)
	}
}

// sweepPre: in swept (contract-less) functions only the preconditions of callees that ask for it
// (sweep-callers) and belong to the property are obligations.
func sweepPre(g *Gen, o *Oblig, prop string) bool {
	if o.Clause == nil || o.Clause.Owner == nil {
		return false
	}
	cc := o.Clause.Owner
	if !cc.Flags["sweep-callers"] {
		return false
	}
	for _, p := range cc.Props {
		if p == prop {
			return true
		}
	}
	return false
}

// atomicScan: a field declared `atomiconly` may only be used as the address argument of a
// sync/atomic function, anywhere in the package.
// onceScan: a function declared onceonly is referenced nowhere but as the argument of sync.Once.Do.
func (g *Gen) onceScan() []*Oblig {
	var out []*Oblig
	for _, ent := range g.cs.OnceOnly {
		i := strings.Index(ent, "|")
		dir, fname := ent[:i], ent[i+1:]
		sp := g.pkgs[dir]
		if sp == nil {
			continue
		}
		var target *ssa.Function
		for _, fn := range g.funcs {
			if fn.Pkg == sp && fn.RelString(sp.Pkg) == fname {
				target = fn
			}
		}
		o := &Oblig{Name: fmt.Sprintf("%s.%s#onceonly", sp.Pkg.Name(), fname), Func: fname, Kind: "onceonly", Label: fname}
		if target == nil {
			o.Res = &SolveResult{Status: "sat", Solver: "use-scan", Output: "function not found"}
			out = append(out, o)
			continue
		}
		var bad []string
		n := 0
		for _, fn := range g.funcs {
			for _, b := range fn.Blocks {
				for _, in := range b.Instrs {
					uses := false
					var closure ssa.Value
					for _, op := range in.Operands(nil) {
						if op == nil || *op == nil {
							continue
						}
						if f, ok := (*op).(*ssa.Function); ok && f == target {
							uses = true
							if mc, ok := in.(*ssa.MakeClosure); ok {
								closure = mc
							}
						}
					}
					if !uses {
						continue
					}
					n++
					okUse := false
					check := func(c *ssa.CallCommon, arg ssa.Value) bool {
						cal := c.StaticCallee()
						return cal != nil && cal.String() == "(*sync.Once).Do" && len(c.Args) == 2 && c.Args[1] == arg
					}
					if closure != nil {
						okUse = true
						for _, r := range *closure.Referrers() {
							if _, dbg := r.(*ssa.DebugRef); dbg {
								continue
							}
							c, isCall := r.(*ssa.Call)
							if !isCall || !check(c.Common(), closure) {
								okUse = false
							}
						}
					} else if c, isCall := in.(*ssa.Call); isCall {
						okUse = check(c.Common(), target)
					}
					if !okUse {
						pos := g.prog.Fset.Position(in.Pos())
						bad = append(bad, fmt.Sprintf("%s (%s:%d)", fn.String(), filepath.Base(pos.Filename), pos.Line))
					}
				}
			}
		}
		if len(bad) == 0 && n > 0 {
			o.Res = &SolveResult{Status: "unsat", Solver: "use-scan", Output: fmt.Sprintf("%d uses, all as the argument of sync.Once.Do", n)}
		} else {
			o.Res = &SolveResult{Status: "sat", Solver: "use-scan", Output: "used other than through sync.Once.Do: " + strings.Join(bad, "; ")}
		}
		out = append(out, o)
	}
	return out
}

func (g *Gen) atomicScan() []*Oblig {
	var out []*Oblig
	for _, ent := range g.cs.AtomicOnly {
		i := strings.Index(ent, "|")
		dir, tf := ent[:i], ent[i+1:]
		sp := g.pkgs[dir]
		j := strings.LastIndex(tf, ".")
		if sp == nil || j < 0 {
			continue
		}
		tname, fname := tf[:j], tf[j+1:]
		obj := sp.Pkg.Scope().Lookup(tname)
		if obj == nil {
			continue
		}
		var bad []string
		n := 0
		for _, fn := range g.funcs {
			if fn.Pkg != sp {
				continue
			}
			if f := g.prog.Fset.File(fn.Pos()); strings.HasPrefix(fn.Name(), "__vc_") || f != nil && strings.Contains(f.Name(), "zz_verif_") {
				continue // specification code (clauses, spec functions) is not part of the program
			}
			for _, b := range fn.Blocks {
				for _, in := range b.Instrs {
					fa, ok := in.(*ssa.FieldAddr)
					if !ok || !types.Identical(deref(fa.X.Type()), obj.Type()) {
						continue
					}
					s, _ := isStruct(obj.Type())
					if s.Field(fa.Field).Name() != fname {
						continue
					}
					for _, ref := range *fa.Referrers() {
						n++
						okUse := false
						if c, isCall := ref.(*ssa.Call); isCall {
							if cal := c.Common().StaticCallee(); cal != nil && (strings.HasPrefix(cal.String(), "sync/atomic.") || strings.HasPrefix(cal.String(), "(*sync/atomic.")) {
								okUse = true
							}
						}
						if _, isDbg := ref.(*ssa.DebugRef); isDbg {
							okUse = true
							n--
						}
						if !okUse {
							pos := g.prog.Fset.Position(ref.Pos())
							bad = append(bad, fmt.Sprintf("%s (%s:%d)", fn.RelString(sp.Pkg), filepath.Base(pos.Filename), pos.Line))
						}
					}
				}
			}
		}
		sort.Strings(bad)
		o := &Oblig{Name: fmt.Sprintf("%s.%s#atomiconly[%s]", sp.Pkg.Name(), tname, fname), Func: tname, Kind: "atomiconly", Label: fname}
		if len(bad) == 0 {
			o.Res = &SolveResult{Status: "unsat", Solver: "access-scan", Output: fmt.Sprintf("%d uses, all as the address argument of sync/atomic calls", n)}
		} else {
			o.Res = &SolveResult{Status: "sat", Solver: "access-scan", Output: "non-atomic access: " + strings.Join(bad, "; ")}
		}
		out = append(out, o)
	}
	return out
}

// publishedScan: for `publishedby T.f T.flag via F...`, every load of field f of a T in the package must be
// dominated, inside its function, by the true branch of a test of flag.Load() on the same object, or by a
// call of one of the listed functions with the same object as receiver; the function handed to
// sync.Once.Do that fills the field (declared `onceonly`) is exempt. One obligation per directive.
func (g *Gen) publishedScan() []*Oblig {
	var out []*Oblig
	for _, d := range g.cs.PublishedBy {
		sp := g.pkgs[d[0]]
		if sp == nil {
			continue
		}
		split := func(tf string) (string, string) {
			j := strings.LastIndex(tf, ".")
			if j < 0 {
				return tf, ""
			}
			return tf[:j], tf[j+1:]
		}
		tname, fname := split(d[1])
		_, flag := split(d[2])
		obj := sp.Pkg.Scope().Lookup(tname)
		if obj == nil {
			continue
		}
		via := map[string]bool{}
		for _, f := range d[3:] {
			via[f] = true
		}
		once := map[string]bool{}
		for _, f := range g.cs.OnceOnly {
			if i := strings.Index(f, "|"); i >= 0 {
				once[f[i+1:]] = true
			} else {
				once[f] = true
			}
		}
		isField := func(v ssa.Value, name string) (ssa.Value, bool) {
			fa, ok := v.(*ssa.FieldAddr)
			if !ok || !types.Identical(deref(fa.X.Type()), obj.Type()) {
				return nil, false
			}
			st, _ := isStruct(obj.Type())
			if st.Field(fa.Field).Name() != name {
				return nil, false
			}
			return fa.X, true
		}
		var bad []string
		n := 0
		for _, fn := range g.funcs {
			if fn.Pkg != sp || fn.Blocks == nil {
				continue
			}
			f := g.prog.Fset.File(fn.Pos())
			if f == nil || strings.HasPrefix(fn.Name(), "__vc_") || strings.Contains(f.Name(), "zz_verif_") || strings.HasSuffix(f.Name(), "_test.go") {
				continue
			}
			if once[fn.RelString(sp.Pkg)] {
				continue
			}
			// reads of the field, per object expression
			type read struct {
				b   *ssa.BasicBlock
				idx int
				in  ssa.Instruction
			}
			reads := map[ssa.Value][]read{}
			for _, b := range fn.Blocks {
				for i, in := range b.Instrs {
					if u, ok := in.(*ssa.UnOp); ok && u.Op == token.MUL {
						if x, ok := isField(u.X, fname); ok {
							reads[x] = append(reads[x], read{b, i, in})
						}
					}
				}
			}
			for x, rs := range reads {
				// must-analysis: "x is known published" at block entry. Generated by a call of a listed
				// function with receiver x, and on the true edge of `if x.flag.Load()`.
				genAt := map[*ssa.BasicBlock]int{} // first instruction index after which it holds
				trueEdge := map[*ssa.BasicBlock]bool{}
				for _, b := range fn.Blocks {
					genAt[b] = -1
					for i, in := range b.Instrs {
						switch in := in.(type) {
						case *ssa.Call:
							if cal := in.Call.StaticCallee(); cal != nil && via[cal.RelString(sp.Pkg)] && len(in.Call.Args) > 0 && in.Call.Args[0] == x && genAt[b] < 0 {
								genAt[b] = i
							}
						case *ssa.If:
							if c, ok := in.Cond.(*ssa.Call); ok && len(c.Call.Args) > 0 {
								if cal := c.Call.StaticCallee(); cal != nil && strings.HasSuffix(cal.String(), ").Load") {
									if y, ok := isField(c.Call.Args[0], flag); ok && y == x {
										trueEdge[b] = true
									}
								}
							}
						}
					}
				}
				in := map[*ssa.BasicBlock]bool{}
				for _, b := range fn.Blocks {
					in[b] = b.Index != 0
				}
				for changed := true; changed; {
					changed = false
					for _, b := range fn.Blocks {
						if b.Index == 0 {
							continue
						}
						v := true
						for _, p := range b.Preds {
							outP := in[p] || genAt[p] >= 0
							if trueEdge[p] && len(p.Succs) == 2 && p.Succs[0] == b && p.Succs[1] != b {
								outP = true
							}
							v = v && outP
						}
						if v != in[b] {
							in[b] = v
							changed = true
						}
					}
				}
				for _, r := range rs {
					n++
					if in[r.b] || genAt[r.b] >= 0 && genAt[r.b] < r.idx {
						continue
					}
					pos := g.prog.Fset.Position(r.in.Pos())
					bad = append(bad, fmt.Sprintf("%s (%s:%d)", fn.RelString(sp.Pkg), filepath.Base(pos.Filename), pos.Line))
				}
			}
		}
		sort.Strings(bad)
		o := &Oblig{Name: fmt.Sprintf("%s.%s#published[%s]", sp.Pkg.Name(), tname, fname), Func: tname, Kind: "published", Label: fname}
		if len(bad) == 0 && n > 0 {
			o.Res = &SolveResult{Status: "unsat", Solver: "read-scan", Output: fmt.Sprintf("%d reads, each after %s was seen set or after %s", n, d[2], strings.Join(d[3:], " / "))}
		} else {
			o.Res = &SolveResult{Status: "sat", Solver: "read-scan", Output: "read without synchronisation: " + strings.Join(bad, "; ")}
		}
		out = append(out, o)
	}
	return out
}

// immutableScan: for `immutable-impl I built-in files...`, every struct type of the package that
// implements I (by value or by pointer) yields one obligation: outside the listed files no function
// stores to one of its fields, or into a map, slice or array held directly in one of its fields,
// unless the object is one the storing function has just allocated.
func (g *Gen) immutableScan() []*Oblig {
	var out []*Oblig
	for _, d := range g.cs.ImmutableImpl {
		sp := g.pkgs[d[0]]
		if sp == nil {
			continue
		}
		io := sp.Pkg.Scope().Lookup(d[1])
		if io == nil {
			continue
		}
		iface, ok := io.Type().Underlying().(*types.Interface)
		if !ok {
			continue
		}
		allowed := map[string]bool{}
		for _, f := range d[2:] {
			allowed[f] = true
		}
		bad := map[string][]string{}
		stores := map[string]int{}
		var names []string
		tset := map[string]types.Type{}
		sc := sp.Pkg.Scope()
		for _, n := range sc.Names() {
			tn, ok := sc.Lookup(n).(*types.TypeName)
			if !ok || tn.IsAlias() {
				continue
			}
			st, isS := tn.Type().Underlying().(*types.Struct)
			if !isS || st.NumFields() == 0 {
				continue
			}
			if types.Implements(tn.Type(), iface) || types.Implements(types.NewPointer(tn.Type()), iface) {
				names = append(names, n)
				tset[n] = tn.Type()
			}
		}
		// ownerOf: the implementation type whose field (possibly of an embedded struct) addr denotes,
		// and the root object expression
		ownerOf := func(addr ssa.Value) (string, ssa.Value) {
			fa, ok := addr.(*ssa.FieldAddr)
			for ok {
				t := deref(fa.X.Type())
				if nt, isN := t.(*types.Named); isN && nt.Obj().Pkg() == sp.Pkg {
					if _, in := tset[nt.Obj().Name()]; in {
						root := fa.X
						for {
							if in2, ok2 := root.(*ssa.FieldAddr); ok2 {
								root = in2.X
								continue
							}
							break
						}
						return nt.Obj().Name(), root
					}
				}
				fa, ok = fa.X.(*ssa.FieldAddr)
			}
			return "", nil
		}
		// heldIn: v is the value of (or the address of) a field of an implementation object
		heldIn := func(v ssa.Value) (string, ssa.Value) {
			if u, ok := v.(*ssa.UnOp); ok && u.Op == token.MUL {
				return ownerOf(u.X)
			}
			return ownerOf(v)
		}
		for _, fn := range g.funcs {
			if fn.Pkg != sp {
				continue
			}
			f := g.prog.Fset.File(fn.Pos())
			if f == nil || strings.HasPrefix(fn.Name(), "__vc_") || strings.Contains(f.Name(), "zz_verif_") || strings.HasSuffix(f.Name(), "_test.go") {
				continue
			}
			inAllowed := allowed[filepath.Base(f.Name())]
			note := func(tn string, root ssa.Value, pos token.Pos, what string) {
				stores[tn]++
				if inAllowed {
					return
				}
				if _, isAlloc := root.(*ssa.Alloc); isAlloc {
					return
				}
				p := g.prog.Fset.Position(pos)
				bad[tn] = append(bad[tn], fmt.Sprintf("%s %s (%s:%d)", fn.RelString(sp.Pkg), what, filepath.Base(p.Filename), p.Line))
			}
			for _, b := range fn.Blocks {
				for _, in := range b.Instrs {
					switch in := in.(type) {
					case *ssa.Store:
						if tn, root := ownerOf(in.Addr); tn != "" {
							note(tn, root, in.Pos(), "stores to a field")
						} else if ia, ok := in.Addr.(*ssa.IndexAddr); ok {
							if tn, root := heldIn(ia.X); tn != "" {
								note(tn, root, in.Pos(), "stores into a slice/array held in a field")
							}
						}
					case *ssa.MapUpdate:
						if tn, root := heldIn(in.Map); tn != "" {
							note(tn, root, in.Pos(), "updates a map held in a field")
						}
					case *ssa.Call:
						if bi, ok := in.Call.Value.(*ssa.Builtin); ok && (bi.Name() == "delete" || bi.Name() == "copy" || bi.Name() == "clear") && len(in.Call.Args) > 0 {
							if tn, root := heldIn(in.Call.Args[0]); tn != "" {
								note(tn, root, in.Pos(), bi.Name()+"() on a map/slice held in a field")
							}
						}
					}
				}
			}
		}
		sort.Strings(names)
		for _, n := range names {
			o := &Oblig{Name: fmt.Sprintf("%s.%s#immutable[%s]", sp.Pkg.Name(), n, d[1]), Func: n, Kind: "immutable", Label: d[1]}
			if len(bad[n]) == 0 {
				o.Res = &SolveResult{Status: "unsat", Solver: "store-scan", Output: fmt.Sprintf("%d stores, all in %s or to objects allocated in the storing function", stores[n], strings.Join(d[2:], " "))}
			} else {
				sort.Strings(bad[n])
				o.Res = &SolveResult{Status: "sat", Solver: "store-scan", Output: "written outside the building code: " + strings.Join(bad[n], "; ")}
			}
			out = append(out, o)
		}
	}
	return out
}

// stableScan: fields declared `stable` may only be stored to through an object allocated in the
// storing function (constructor pattern). Each declared field yields one syntactic obligation over
// every Store instruction of the verified packages.
func (g *Gen) stableScan() []*Oblig {
	type key struct{ tn, fn string }
	var out []*Oblig
	for _, ent := range g.cs.Stable {
		i := strings.Index(ent, "|")
		dir, tf := ent[:i], ent[i+1:]
		sp := g.pkgs[dir]
		j := strings.LastIndex(tf, ".")
		if sp == nil || j < 0 {
			continue
		}
		tname, fname := tf[:j], tf[j+1:]
		obj := sp.Pkg.Scope().Lookup(tname)
		if obj == nil {
			continue
		}
		var bad []string
		nStores := 0
		nCtor := 0
		for _, fn := range g.funcs {
			if fn.Pkg != sp {
				continue
			}
			for _, b := range fn.Blocks {
				for _, in := range b.Instrs {
					st, ok := in.(*ssa.Store)
					if !ok {
						continue
					}
					fa, ok := st.Addr.(*ssa.FieldAddr)
					if !ok {
						continue
					}
					t := deref(fa.X.Type())
					if !types.Identical(t, obj.Type()) {
						continue
					}
					s, _ := isStruct(t)
					if s.Field(fa.Field).Name() != fname {
						continue
					}
					nStores++
					root := fa.X
					for {
						if in2, ok := root.(*ssa.FieldAddr); ok {
							root = in2.X // a struct embedded in (a struct embedded in ...) the object
							continue
						}
						break
					}
					if _, isAlloc := root.(*ssa.Alloc); isAlloc {
						continue
					}
					isCtor := false
					for _, c := range g.cs.Constructors {
						if c[0] == tname && c[1] == fn.RelString(sp.Pkg) {
							isCtor = true
						}
					}
					if isCtor {
						nCtor++
						continue
					}
					pos := g.prog.Fset.Position(st.Pos())
					bad = append(bad, fmt.Sprintf("%s (%s:%d)", fn.RelString(sp.Pkg), filepath.Base(pos.Filename), pos.Line))
				}
			}
		}
		sort.Strings(bad)
		o := &Oblig{Name: fmt.Sprintf("%s.%s#stable[%s]", sp.Pkg.Name(), tname, fname), Func: tname, Kind: "stable", Label: fname}
		if len(bad) == 0 {
			o.Res = &SolveResult{Status: "unsat", Solver: "store-scan", Output: fmt.Sprintf("%d stores: %d in declared constructors, the rest to objects allocated in the storing function", nStores, nCtor)}
		} else {
			o.Res = &SolveResult{Status: "sat", Solver: "store-scan", Output: "stored to outside a constructor: " + strings.Join(bad, "; ")}
		}
		out = append(out, o)
	}
	return out
}
