package main

// Counterexample replay: a solver model is turned into an in-package Go test that calls the real
// function and evaluates the failed clause (compiled Go, the same text the verifier translated).

import (
	"sort"
	"encoding/json"
	"fmt"
	"go/types"
	"os"
	"os/exec"
	"path/filepath"
	"regexp"
	"strconv"
	"strings"
	"time"

	"golang.org/x/tools/go/ssa"
)

type sexp struct {
	atom string
	list []*sexp
}

func parseSexp(s string) []*sexp {
	var out []*sexp
	i := 0
	var parse func() *sexp
	skip := func() {
		for i < len(s) && (s[i] == ' ' || s[i] == '\n' || s[i] == '\t' || s[i] == '\r') {
			i++
		}
	}
	parse = func() *sexp {
		skip()
		if i >= len(s) {
			return nil
		}
		if s[i] == '(' {
			i++
			n := &sexp{list: []*sexp{}}
			for {
				skip()
				if i >= len(s) {
					return n
				}
				if s[i] == ')' {
					i++
					return n
				}
				c := parse()
				if c == nil {
					return n
				}
				n.list = append(n.list, c)
			}
		}
		st := i
		if s[i] == '|' {
			i++
			for i < len(s) && s[i] != '|' {
				i++
			}
			i++
			return &sexp{atom: s[st+1 : i-1]}
		}
		for i < len(s) && !strings.ContainsRune(" \n\t\r()", rune(s[i])) {
			i++
		}
		return &sexp{atom: s[st:i]}
	}
	for {
		n := parse()
		if n == nil {
			break
		}
		out = append(out, n)
	}
	return out
}

func (s *sexp) String() string {
	if s.list == nil {
		return s.atom
	}
	var ps []string
	for _, c := range s.list {
		ps = append(ps, c.String())
	}
	return "(" + strings.Join(ps, " ") + ")"
}

// modelValues parses `((name value) ...)`.
func modelValues(model string) map[string]*sexp {
	m := map[string]*sexp{}
	for _, top := range parseSexp(model) {
		for _, pr := range top.list {
			if len(pr.list) == 2 {
				m[pr.list[0].String()] = pr.list[1]
			}
		}
	}
	return m
}

func sexpInt(s *sexp) (string, bool) {
	if s.list == nil {
		if _, err := strconv.ParseUint(s.atom, 10, 64); err == nil {
			return s.atom, true
		}
		return "", false
	}
	if len(s.list) == 2 && s.list[0].atom == "-" {
		if v, ok := sexpInt(s.list[1]); ok {
			return "-" + v, true
		}
	}
	return "", false
}

func sexpFloatBits(s *sexp) (uint64, bool) {
	if len(s.list) == 4 && s.list[0].atom == "fp" {
		var bits uint64
		for _, p := range s.list[1:] {
			a := p.atom
			switch {
			case strings.HasPrefix(a, "#b"):
				for _, c := range a[2:] {
					bits = bits<<1 | uint64(c-'0')
				}
			case strings.HasPrefix(a, "#x"):
				for _, c := range a[2:] {
					v, _ := strconv.ParseUint(string(c), 16, 8)
					bits = bits<<4 | v
				}
			default:
				return 0, false
			}
		}
		return bits, true
	}
	if len(s.list) == 4 && s.list[0].atom == "_" {
		switch s.list[1].atom {
		case "+zero":
			return 0, true
		case "-zero":
			return 1 << 63, true
		case "+oo":
			return 0x7ff0000000000000, true
		case "-oo":
			return 0xfff0000000000000, true
		case "NaN":
			return 0x7ff8000000000001, true
		}
	}
	return 0, false
}

// goExpr renders a model value of Go type t as a Go expression.
func (g *Gen) goExpr(e *Emitter, t types.Type, v *sexp, pkg *types.Package) (string, bool) {
	ts := types.TypeString(t, types.RelativeTo(pkg))
	switch u := t.Underlying().(type) {
	case *types.Basic:
		switch {
		case u.Info()&types.IsBoolean != 0:
			return ts + "(" + v.atom + ")", v.atom == "true" || v.atom == "false"
		case u.Info()&types.IsInteger != 0:
			if s, ok := sexpInt(v); ok {
				if strings.HasPrefix(s, "-") && u.Info()&types.IsUnsigned != 0 {
					return "", false
				}
				return ts + "(" + s + ")", true
			}
		case u.Kind() == types.Float64:
			if b, ok := sexpFloatBits(v); ok {
				return fmt.Sprintf("%s(math.Float64frombits(0x%x))", ts, b), true
			}
		}
	case *types.Interface:
		if v.list == nil && v.atom == "nilbox" {
			return "nil", true
		}
		if len(v.list) == 2 && strings.HasPrefix(v.list[0].atom, "box_") {
			k := strings.TrimPrefix(v.list[0].atom, "box_")
			ct := e.tagTy[k]
			if ct == nil {
				return "", false
			}
			inner, ok := g.goExpr(e, ct, v.list[1], pkg)
			if !ok {
				return "", false
			}
			return ts + "(" + inner + ")", true
		}
	}
	return "", false
}

// clauseSource returns the Go source of a clause function renamed to name.
func (g *Gen) clauseSource(cl *Clause, name string) string {
	src := g.overlaySrc[cl.Owner.PkgDir]
	key := "func " + cl.FnName + "("
	i := strings.Index(src, key)
	if i < 0 {
		return ""
	}
	j := strings.Index(src[i:], "\n\n")
	if j < 0 {
		j = len(src) - i
	}
	body := src[i : i+j]
	body = strings.Replace(body, "func "+cl.FnName+"(", "func "+name+"(", 1)
	return strings.ReplaceAll(body, "__vc_old(", "__rp_old(")
}

func (g *Gen) replay(o *Oblig, rf *replayFile) {
	if o.ex == nil {
		rf.Replay = "no-model"
		rf.Reason = o.Res.Output
		return
	}
	if o.Res.Status != "sat" || o.Res.Model == "" {
		rf.Replay = "no-model"
		rf.Reason = "the solver returned no model for this obligation (" + o.Res.Status + ")"
		return
	}
	ex := o.ex
	con := ex.con
	if con == nil || !(o.Kind == "ensures" && o.Clause != nil || o.Kind == "safe" || o.Kind == "create" && con.Replay == "vmexec") {
		rf.Replay = "no-adapter"
		rf.Reason = "no replay adapter for obligation kind " + o.Kind
		return
	}
	var src, reason string
	switch con.Replay {
	case "vmexec":
		src, reason = g.vmexecReplaySource(o)
	default:
		src, reason = g.scalarReplaySource(o)
	}
	if src == "" {
		rf.Replay = "no-adapter"
		rf.Reason = reason
		return
	}
	rf.TestSource = src
	out, err := runReplayTest(g.repo, src, con.PkgDir)
	rf.TestOutput = out
	switch {
	case strings.Contains(out, "GVC-REPLAY: VIOLATED"):
		rf.Replay = "reproduced"
	case strings.Contains(out, "GVC-REPLAY: HOLDS"):
		rf.Replay = "not-reproduced"
		rf.Reason = "the model does not violate the clause on the real code (it exploits an abstraction of the translation)"
	default:
		rf.Replay = "not-reproduced"
		rf.Reason = fmt.Sprintf("replay test did not run to a verdict: %v", err)
	}
}

// scalarReplaySource: generic adapter for functions whose parameters are scalars or Number values.
func (g *Gen) scalarReplaySource(o *Oblig) (string, string) {
	ex := o.ex
	con := ex.con
	fn := ex.fn
	pkg := fn.Pkg.Pkg
	mv := modelValues(o.Res.Model)
	var decls, argNames []string
	var strCands []string
	strParam := ""
	for i, p := range fn.Params {
		name := fmt.Sprintf("a%d", i)
		v := mv["p_"+sanitize(p.Name())]
		if v == nil {
			return "", "model has no value for parameter " + p.Name()
		}
		if b, isB := p.Type().Underlying().(*types.Basic); isB && b.Info()&types.IsString != 0 {
			// candidates: the model's value of the parameter, then of every string the function carries
			// around a loop (the unread rest of the input: running on that rest reaches the same state)
			var cands []string
			if lit, why := modelString(mv, "p_"+sanitize(p.Name())); why == "" {
				cands = append(cands, lit)
			}
			var keys []string
			for k := range mv {
				if strings.HasPrefix(k, "(str_len lv_") {
					keys = append(keys, strings.TrimSuffix(strings.TrimPrefix(k, "(str_len "), ")"))
				}
			}
			sort.Strings(keys)
			for _, k := range keys {
				if lit, why := modelString(mv, k); why == "" {
					cands = append(cands, lit)
				}
			}
			if len(cands) == 0 {
				return "", fmt.Sprintf("parameter %s: no string in the model can be rebuilt", p.Name())
			}
			ts := types.TypeString(p.Type(), types.RelativeTo(pkg))
			strCands = cands
			strParam = name
			decls = append(decls, fmt.Sprintf("\tvar %s %s = %s(__rp_cand)", name, ts, ts))
			argNames = append(argNames, name)
			continue
		}
		ge, ok := g.goExpr(ex.e, p.Type(), v, pkg)
		if !ok {
			return "", fmt.Sprintf("parameter %s of type %s cannot be built from a model value (%s)", p.Name(), p.Type(), v)
		}
		decls = append(decls, fmt.Sprintf("\tvar %s %s = %s", name, types.TypeString(p.Type(), types.RelativeTo(pkg)), ge))
		argNames = append(argNames, name)
	}
	var call string
	switch {
	case fn.Signature.Recv() != nil:
		call = fmt.Sprintf("%s.%s(%s)", argNames[0], fn.Name(), strings.Join(argNames[1:], ", "))
	default:
		call = fmt.Sprintf("%s(%s)", fn.Name(), strings.Join(argNames, ", "))
	}
	nres := fn.Signature.Results().Len()
	var resNames []string
	for i := 0; i < nres; i++ {
		resNames = append(resNames, fmt.Sprintf("r%d", i))
	}
	cl := o.Clause
	csrc := ""
	if cl != nil {
		if len(cl.Bound) > 0 {
			return "", "clause has quantified variables"
		}
		csrc = g.clauseSource(cl, "__rp_clause")
		if csrc == "" {
			return "", "clause source not found"
		}
	}
	imports := map[string]bool{"testing": true, "fmt": true, "math": true}
	var b strings.Builder
	b.WriteString("//go:build verif\n\npackage " + pkg.Name() + "\n\nimport (\n")
	for k := range imports {
		fmt.Fprintf(&b, "\t%q\n", k)
	}
	sp, _ := loadSrcPkg(con.PkgDir)
	if sp != nil {
		for _, m := range identRe.FindAllStringSubmatch(csrc, -1) {
			if path, ok := sp.imports[m[1]]; ok && !imports[path] {
				imports[path] = true
				fmt.Fprintf(&b, "\t%s %q\n", m[1], path)
			}
		}
	}
	b.WriteString(")\n\nvar _ = math.Abs\n\nfunc __rp_old[T any](x T) T { return x }\n\n")
	b.WriteString(csrc + "\n\n")
	if cl == nil {
		// a bounds/nil obligation: the input violates it iff the real function raises a Go runtime error
		if strParam == "" {
			strCands = []string{"\"\""}
		}
		fmt.Fprintf(&b, "func TestGvcReplay(t *testing.T) {\n\tfor _, __rp_cand := range []string{%s} {\n\t\tif __rpOne(__rp_cand) {\n\t\t\treturn\n\t\t}\n\t}\n\tfmt.Println(\"GVC-REPLAY: HOLDS\")\n}\n\n", strings.Join(strCands, ", "))
		b.WriteString("func __rpOne(__rp_cand string) (violated bool) {\n\tdefer func() {\n\t\tif r := recover(); r != nil {\n\t\t\tif _, isRT := r.(interface{ RuntimeError() }); isRT {\n\t\t\t\tfmt.Println(\"GVC-REPLAY: VIOLATED\", r)\n\t\t\t\tviolated = true\n\t\t\t} else {\n\t\t\t\tfmt.Println(\"GVC-REPLAY: other panic\", r)\n\t\t\t}\n\t\t}\n\t}()\n\t_ = __rp_cand\n")
		b.WriteString(strings.Join(decls, "\n") + "\n")
		fmt.Fprintf(&b, "\tfmt.Printf(\"GVC-REPLAY: inputs %s\\n\", %s)\n", strings.Repeat("%q ", len(argNames)), strings.Join(argNames, ", "))
		if nres > 0 {
			fmt.Fprintf(&b, "\t%s := %s\n\t_ = []interface{}{%s}\n", strings.Join(resNames, ", "), call, strings.Join(resNames, ", "))
		} else {
			fmt.Fprintf(&b, "\t%s\n", call)
		}
		b.WriteString("\treturn false\n}\n")
		return b.String(), ""
	}
	b.WriteString("func TestGvcReplay(t *testing.T) {\n\tdefer func() {\n\t\tif r := recover(); r != nil {\n\t\t\tfmt.Println(\"GVC-REPLAY: PANIC\", r)\n\t\t}\n\t}()\n")
	b.WriteString(strings.Join(decls, "\n") + "\n")
	if nres > 0 {
		fmt.Fprintf(&b, "\t%s := %s\n", strings.Join(resNames, ", "), call)
	} else {
		fmt.Fprintf(&b, "\t%s\n", call)
	}
	fmt.Fprintf(&b, "\tfmt.Printf(\"GVC-REPLAY: inputs %s results %s\\n\", %s)\n", strings.Repeat("%v ", len(argNames)), strings.Repeat("%#v ", nres), strings.Join(append(append([]string{}, argNames...), resNames...), ", "))
	fmt.Fprintf(&b, "\tif !__rp_clause(%s) {\n\t\tfmt.Println(\"GVC-REPLAY: VIOLATED %s\")\n\t} else {\n\t\tfmt.Println(\"GVC-REPLAY: HOLDS\")\n\t}\n}\n", strings.Join(append(append([]string{}, argNames...), resNames...), ", "), strings.ReplaceAll(o.Name, `"`, `'`))
	return b.String(), ""
}

// replaceOld rewrites __vc_old(e) into e with every occurrence of identifier id replaced by idOld.
func replaceOld(src, id, idOld string) string {
	var b strings.Builder
	for {
		i := strings.Index(src, "__vc_old(")
		if i < 0 {
			b.WriteString(src)
			break
		}
		b.WriteString(src[:i])
		j := i + len("__vc_old(")
		depth := 1
		k := j
		for ; k < len(src) && depth > 0; k++ {
			switch src[k] {
			case '(':
				depth++
			case ')':
				depth--
			}
		}
		inner := src[j : k-1]
		re := regexp.MustCompile(`\b` + regexp.QuoteMeta(id) + `\b`)
		b.WriteString("(" + re.ReplaceAllString(inner, idOld) + ")")
		src = src[k:]
	}
	return b.String()
}

// vmexecReplaySource: adapter for `func (T) exec(vm *vm)` instructions. The VM registers and the
// top stack slots come from the model (observe clauses sp, top1, top2, top3).
func (g *Gen) vmexecReplaySource(o *Oblig) (string, string) {
	ex := o.ex
	con := ex.con
	fn := ex.fn
	pkg := fn.Pkg.Pkg
	mv := modelValues(o.Res.Model)
	valT := pkg.Scope().Lookup("Value").Type()
	get := func(name string, t types.Type) (string, bool) {
		v := mv["obs_"+name]
		if v == nil {
			return "", false
		}
		return g.goExpr(ex.e, t, v, pkg)
	}
	sp, ok := get("sp", types.Typ[types.Int])
	if !ok {
		return "", "model has no usable value for observe sp"
	}
	var b strings.Builder
	b.WriteString("//go:build verif\n\npackage " + pkg.Name() + "\n\nimport (\n\t\"fmt\"\n\t\"math\"\n\t\"testing\"\n)\n\nvar _ = math.Abs\n\n")
	clauseCall := ""
	if o.Kind == "ensures" {
		if len(o.Clause.Bound) > 0 {
			return "", "clause has quantified variables"
		}
		csrc := g.clauseSource(o.Clause, "__rp_clause")
		if csrc == "" {
			return "", "clause source not found"
		}
		// old(): evaluated on a snapshot
		csrc = strings.ReplaceAll(csrc, "__rp_old(", "__vc_old(")
		vmName := con.Params[len(con.Params)-1].Name
		csrc = replaceOld(csrc, vmName, vmName+"Old")
		csrc = strings.Replace(csrc, ") bool {", ", "+vmName+"Old *vm) bool {", 1)
		b.WriteString(csrc + "\n\n")
		clauseCall = "__rp_clause(ins, vm, &vmOld)"
	}
	recvT := types.TypeString(fn.Params[0].Type(), types.RelativeTo(pkg))
	b.WriteString("func TestGvcReplay(t *testing.T) {\n\tdefer func() {\n\t\tif r := recover(); r != nil {\n\t\t\tfmt.Println(\"GVC-REPLAY: PANIC\", r)\n\t\t}\n\t}()\n")
	fmt.Fprintf(&b, "\tr := New()\n\tvm := r.vm\n\tsp := %s\n\tif sp < 0 || sp > 1<<16 {\n\t\tfmt.Println(\"GVC-REPLAY: model out of harness range\")\n\t\treturn\n\t}\n\tvm.stack = make(valueStack, sp+4)\n\tfor i := range vm.stack {\n\t\tvm.stack[i] = _undefined\n\t}\n\tvm.sp = sp\n", sp)
	for i, nm := range []string{"top1", "top2", "top3"} {
		if e, ok := get(nm, valT); ok {
			fmt.Fprintf(&b, "\tif sp-%d >= 0 {\n\t\tvm.stack[sp-%d] = %s\n\t}\n", i+1, i+1, e)
		}
	}
	fmt.Fprintf(&b, "\tvar ins %s\n\tvmOld := *vm\n\tvmOld.stack = append(valueStack(nil), vm.stack...)\n\t_ = vmOld\n", recvT)
	b.WriteString("\tlo := vm.sp - 3\n\tif lo < 0 {\n\t\tlo = 0\n\t}\n\tfmt.Printf(\"GVC-REPLAY: before sp=%d top=%#v\\n\", vm.sp, vm.stack[lo:vm.sp])\n")
	b.WriteString("\tins.exec(vm)\n")
	b.WriteString("\tlo = vm.sp - 3\n\tif lo < 0 {\n\t\tlo = 0\n\t}\n\tfmt.Printf(\"GVC-REPLAY: after sp=%d top=%#v\\n\", vm.sp, vm.stack[lo:vm.sp])\n")
	if o.Kind == "ensures" {
		fmt.Fprintf(&b, "\tif !%s {\n\t\tfmt.Println(\"GVC-REPLAY: VIOLATED %s\")\n\t} else {\n\t\tfmt.Println(\"GVC-REPLAY: HOLDS\")\n\t}\n}\n", clauseCall, strings.ReplaceAll(o.Name, `"`, `'`))
	} else {
		var inv string
		for _, f := range g.createInv {
			inv = f.Name()
		}
		fmt.Fprintf(&b, "\tbad := false\n\tfor i := 0; i < vm.sp; i++ {\n\t\tif !%s(vm.stack[i]) {\n\t\t\tbad = true\n\t\t}\n\t}\n\tif bad {\n\t\tfmt.Println(\"GVC-REPLAY: VIOLATED %s\")\n\t} else {\n\t\tfmt.Println(\"GVC-REPLAY: HOLDS\")\n\t}\n}\n", inv, strings.ReplaceAll(o.Name, `"`, `'`))
	}
	return b.String(), ""
}

// runReplayTest compiles src into the package at pkgDir through -overlay and runs TestGvcReplay.
func runReplayTest(repo, src, pkgDir string) (string, error) {
	if pkgDir == "" {
		pkgDir = repo
	}
	tmp, err := os.MkdirTemp("", "gvc-replay-")
	if err != nil {
		return "", err
	}
	defer os.RemoveAll(tmp)
	tf := filepath.Join(tmp, "zz_gvc_replay_test.go")
	os.WriteFile(tf, []byte(src), 0o644)
	ov := map[string]map[string]string{"Replace": {filepath.Join(pkgDir, "zz_gvc_replay_test.go"): tf}}
	ovData, _ := json.Marshal(ov)
	ovf := filepath.Join(tmp, "ov.json")
	os.WriteFile(ovf, ovData, 0o644)
	cmd := exec.Command("go", "test", "-tags", "verif", "-overlay", ovf, "-vet=off", "-count=1", "-timeout", "60s", "-run", "^TestGvcReplay$", "-v", ".")
	cmd.Dir = pkgDir
	cmd.Env = goEnv
	done := make(chan struct{})
	var out []byte
	go func() {
		out, err = cmd.CombinedOutput()
		close(done)
	}()
	select {
	case <-done:
	case <-time.After(300 * time.Second):
		cmd.Process.Kill()
		<-done
	}
	return string(out), err
}

var _ = ssa.NaiveForm

// autoPatterns chooses E-matching triggers for a quantified clause: the innermost applications of
// uninterpreted symbols / array reads that mention bound variables. Solvers' own inference often
// fails on the Boolean structure the SSA translation produces.
func autoPatterns(body string, binders []string) string {
	nodes := parseSexp(body)
	if len(nodes) != 1 {
		return ""
	}
	bset := map[string]bool{}
	for _, b := range binders {
		bset[b] = true
	}
	var vars func(n *sexp, acc map[string]bool)
	vars = func(n *sexp, acc map[string]bool) {
		if n.list == nil {
			if bset[n.atom] {
				acc[n.atom] = true
			}
			return
		}
		for _, c := range n.list {
			vars(c, acc)
		}
	}
	isCand := func(n *sexp) bool {
		if n.list == nil || len(n.list) < 2 || n.list[0].list != nil {
			return false
		}
		h := n.list[0].atom
		return h == "elemat" || h == "select" || h == "str_at" || h == "str_len" || strings.HasPrefix(h, "uf_") || h == "i2f64" || h == "f2i64"
	}
	var cands []*sexp
	var walk func(n *sexp) bool // returns true if a candidate was found inside
	walk = func(n *sexp) bool {
		if n.list == nil {
			return false
		}
		found := false
		for _, c := range n.list {
			if walk(c) {
				found = true
			}
		}
		if isCand(n) {
			acc := map[string]bool{}
			vars(n, acc)
			if len(acc) > 0 {
				// prefer the innermost candidate, except that an array read whose array argument
				// holds the inner candidate is itself the useful trigger (select (select E a) i)
				inner := false
				for _, c := range n.list[1:] {
					if c.list != nil && isCand(c) {
						a2 := map[string]bool{}
						vars(c, a2)
						if len(a2) == len(acc) && n.list[0].atom != "select" {
							inner = true
						}
					}
				}
				if !inner {
					cands = append(cands, n)
				}
				return true
			}
		}
		return found
	}
	walk(nodes[0])
	seen := map[string]bool{}
	var full, partial []string
	for _, c := range cands {
		t := c.String()
		if seen[t] || strings.Contains(t, "(ite ") {
			continue
		}
		seen[t] = true
		acc := map[string]bool{}
		vars(c, acc)
		if len(acc) == len(bset) {
			full = append(full, t)
		} else {
			partial = append(partial, t)
		}
	}
	var out []string
	for i, t := range full {
		if i < 6 {
			out = append(out, ":pattern ("+t+")")
		}
	}
	if len(full) == 0 && len(partial) > 1 {
		// one multi-pattern covering all variables
		cover := map[string]bool{}
		var pick []string
		for _, t := range partial {
			acc := map[string]bool{}
			for _, n := range parseSexp(t) {
				vars(n, acc)
			}
			add := false
			for v := range acc {
				if !cover[v] {
					add = true
				}
			}
			if add {
				pick = append(pick, t)
				for v := range acc {
					cover[v] = true
				}
			}
		}
		if len(cover) == len(bset) {
			out = append(out, ":pattern ("+strings.Join(pick, " ")+")")
		}
	}
	return strings.Join(out, " ")
}

// modelString builds a Go string literal from the model's values of (str_len p) and (str_at p i).
func modelString(mv map[string]*sexp, p string) (string, string) {
	lv := mv["(str_len "+p+")"]
	if lv == nil {
		return "", "the model has no length for the string"
	}
	ls, ok := sexpInt(lv)
	if !ok {
		return "", "string length is not a number"
	}
	n, err := strconv.Atoi(ls)
	if err != nil || n < 0 || n > 48 {
		return "", fmt.Sprintf("string of length %s cannot be rebuilt (only the first 48 bytes are part of the model)", ls)
	}
	var b strings.Builder
	b.WriteString("\"")
	for i := 0; i < n; i++ {
		cv := mv[fmt.Sprintf("(str_at %s %d)", p, i)]
		if cv == nil {
			return "", "missing byte in the model"
		}
		cs, ok := sexpInt(cv)
		c, err := strconv.Atoi(cs)
		if !ok || err != nil || c < 0 || c > 255 {
			return "", fmt.Sprintf("byte %d of the string is not a byte in the model (%s)", i, cv)
		}
		fmt.Fprintf(&b, "\\x%02x", c)
	}
	b.WriteString("\"")
	return b.String(), ""
}
