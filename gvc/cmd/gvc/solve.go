package main

import (
	"bytes"
	"context"
	"fmt"
	"os"
	"os/exec"
	"path/filepath"
	"strings"
	"sync"
	"time"
)

type SolveResult struct {
	Status string // unsat sat unknown timeout error
	Solver string
	TimeS  float64
	Model  string
	Output string
	Tried  []string
	File   string
}

type solverSpec struct {
	name string
	args func(file string, timeoutS int) []string
}

var solvers = []solverSpec{
	{"z3-new", func(f string, t int) []string { return []string{"z3-new", fmt.Sprintf("-T:%d", t), f} }},
	{"cvc5", func(f string, t int) []string {
		return []string{"cvc5", "--produce-models", fmt.Sprintf("--tlimit=%d", t*1000), f}
	}},
	{"z3", func(f string, t int) []string { return []string{"z3", fmt.Sprintf("-T:%d", t), f} }},
}

func runSolver(ctx context.Context, sp solverSpec, file string, timeoutS int) *SolveResult {
	args := sp.args(file, timeoutS)
	ctx2, cancel := context.WithTimeout(ctx, time.Duration(timeoutS+5)*time.Second)
	defer cancel()
	cmd := exec.CommandContext(ctx2, args[0], args[1:]...)
	var out bytes.Buffer
	cmd.Stdout = &out
	cmd.Stderr = &out
	t0 := time.Now()
	_ = cmd.Run()
	el := time.Since(t0).Seconds()
	s := out.String()
	first := strings.TrimSpace(strings.SplitN(s, "\n", 2)[0])
	r := &SolveResult{Solver: sp.name, TimeS: el, Output: s, File: file}
	switch {
	case first == "unsat":
		r.Status = "unsat"
	case first == "sat":
		r.Status = "sat"
		if i := strings.Index(s, "\n"); i >= 0 {
			r.Model = strings.TrimSpace(s[i+1:])
		}
	case first == "unknown":
		r.Status = "unknown"
	case ctx.Err() != nil:
		r.Status = "cancelled"
	case first == "timeout" || strings.Contains(s, "timeout") || ctx2.Err() != nil || strings.Contains(s, "interrupted"):
		r.Status = "timeout"
	default:
		r.Status = "error"
	}
	return r
}

// query builds the SMT-LIB text of one obligation.
func (o *Oblig) query(pre string, relax bool, harness ...bool) string {
	var b strings.Builder
	if relax {
		// quantifier-free relaxation for model finding: universally quantified assumptions are
		// dropped (any model found is validated by replay on the real code, never trusted)
		for _, l := range strings.Split(pre, "\n") {
			if strings.Contains(l, "(forall ") {
				continue
			}
			b.WriteString(l)
			b.WriteByte('\n')
		}
	} else {
		b.WriteString(pre)
	}
	for _, l := range o.ex.e.lines[:o.Cut] {
		if relax && strings.HasPrefix(l, "(assert") && strings.Contains(l, "(forall ") {
			continue
		}
		b.WriteString(l)
		b.WriteByte('\n')
	}
	if relax && len(harness) > 0 && harness[0] {
		for _, ra := range o.ex.replayAssume {
			fmt.Fprintf(&b, "(assert %s)\n", ra)
		}
	}
	fmt.Fprintf(&b, "(assert (not %s))\n(check-sat)\n", o.Goal)
	if len(o.Inputs) > 0 {
		fmt.Fprintf(&b, "(get-value (%s))\n", strings.Join(o.Inputs, " "))
	}
	return b.String()
}

// race runs the solvers concurrently on file; the first decisive answer (sat/unsat) wins unless all is set.
func race(file string, timeoutS int, all bool, which []solverSpec) *SolveResult {
	return raceCtx(context.Background(), file, timeoutS, all, which)
}

func raceCtx(parent context.Context, file string, timeoutS int, all bool, which []solverSpec) *SolveResult {
	ctx, cancel := context.WithCancel(parent)
	defer cancel()
	ch := make(chan *SolveResult, len(which))
	for _, sp := range which {
		sp := sp
		go func() { ch <- runSolver(ctx, sp, file, timeoutS) }()
	}
	var best *SolveResult
	var tried []string
	for range which {
		r := <-ch
		if r.Status == "cancelled" {
			continue
		}
		tried = append(tried, fmt.Sprintf("%s:%s:%.2fs", r.Solver, r.Status, r.TimeS))
		dec := r.Status == "unsat" || r.Status == "sat"
		switch {
		case best == nil:
			best = r
		case dec && (best.Status == "unsat" || best.Status == "sat") && best.Status != r.Status:
			best = &SolveResult{Status: "error", Solver: "disagree", Output: "solvers disagree: " + strings.Join(tried, " "), File: file}
		case dec && best.Status != "unsat" && best.Status != "sat":
			best = r
		}
		if dec && !all {
			cancel()
			break
		}
	}
	if best == nil {
		best = &SolveResult{Status: "error", Solver: "none"}
	}
	best.Tried = tried
	return best
}

// solveAll discharges obligations in parallel. Phase 1: proof variant (axiomatised conversions),
// all solvers raced. Phase 2, only for obligations not discharged: model-finding variant.
func solveAll(obs []*Oblig, pres map[*Exec][2]string, timeoutS int, workers int, all bool, dir string) {
	var wg sync.WaitGroup
	ch := make(chan *Oblig)
	if workers > 6 {
		workers = 6
	}
	for w := 0; w < workers; w++ {
		wg.Add(1)
		go func() {
			defer wg.Done()
			for o := range ch {
				timeoutS := timeoutS
				if o.TimeoutS > 0 {
					timeoutS = o.TimeoutS
				}
				base := sanitize(o.Name)
				if len(base) > 150 {
					base = fmt.Sprintf("ob%p", o)
				}
				file := filepath.Join(dir, base+".smt2")
				os.WriteFile(file, []byte(o.query(pres[o.ex][0], false)), 0o644)
				usesConv := o.ex.e.convAx != nil
				var r *SolveResult
				if usesConv {
					// proof variant (axiomatised conversions) and exact/relaxed variant raced
					file2 := filepath.Join(dir, base+".exact.smt2")
					os.WriteFile(file2, []byte(o.query(pres[o.ex][1], true)), 0o644)
					c1 := make(chan *SolveResult, 1)
					c2 := make(chan *SolveResult, 1)
					ctx, cancel := context.WithCancel(context.Background())
					go func() { c1 <- raceCtx(ctx, file, timeoutS, all, solvers) }()
					go func() { c2 <- raceCtx(ctx, file2, timeoutS, false, []solverSpec{solvers[0]}) }()
					var r1, r2 *SolveResult
					for r1 == nil || r2 == nil {
						select {
						case r1 = <-c1:
							if r1.Status == "unsat" && !all {
								cancel()
							}
						case r2 = <-c2:
							if r2.Status == "unsat" && !all {
								cancel()
							}
						}
					}
					cancel()
					r = r1
					if r1.Status != "unsat" && (r2.Status == "sat" || r2.Status == "unsat") {
						r2.Tried = append(r1.Tried, r2.Tried...)
						r2.Solver += "(exact-conv)"
						r = r2
					} else {
						r.Tried = append(r.Tried, r2.Tried...)
					}
				} else {
					r = race(file, timeoutS, all, solvers)
					if r.Status != "unsat" {
						file2 := filepath.Join(dir, base+".exact.smt2")
						os.WriteFile(file2, []byte(o.query(pres[o.ex][1], true)), 0o644)
						r2 := race(file2, timeoutS, false, []solverSpec{solvers[0], solvers[2]})
						r.Tried = append(r.Tried, r2.Tried...)
						if r2.Status == "sat" || r2.Status == "unsat" {
							r2.Tried = r.Tried
							r2.Solver += "(relaxed)"
							r = r2
						}
					}
				}
				if r.Status == "sat" && len(o.ex.replayAssume) > 0 {
					// prefer a counterexample inside the domain the replay harness can build
					file3 := filepath.Join(dir, base+".harness.smt2")
					os.WriteFile(file3, []byte(o.query(pres[o.ex][1], true, true)), 0o644)
					r3 := race(file3, timeoutS, false, []solverSpec{solvers[0], solvers[2]})
					if r3.Status == "sat" {
						r3.Tried = append(r.Tried, r3.Tried...)
						r3.Solver += "(harness-domain)"
						r = r3
					}
				}
				o.Res = r
			}
		}()
	}
	for _, o := range obs {
		ch <- o
	}
	close(ch)
	wg.Wait()
}

// coverCheck: vacuity guard. For every distinct (function, reach condition) the assumptions up to the
// last obligation with that reach condition must be satisfiable together with the reach condition.
// Returns the names of obligations whose premises are contradictory.
func coverCheck(obs []*Oblig, pres map[*Exec][2]string, timeoutS int, dir string) (vacuous []string, checked int) {
	type key struct {
		ex    *Exec
		reach string
	}
	last := map[key]*Oblig{}
	for _, o := range obs {
		if o.ex == nil || o.MaybeDead {
			continue
		}
		k := key{o.ex, o.Reach}
		if p, ok := last[k]; !ok || o.Cut > p.Cut {
			last[k] = o
		}
	}
	var list []*Oblig
	for _, o := range last {
		list = append(list, o)
	}
	var mu sync.Mutex
	var wg sync.WaitGroup
	sem := make(chan struct{}, 8)
	for i, o := range list {
		wg.Add(1)
		sem <- struct{}{}
		go func(i int, o *Oblig) {
			defer wg.Done()
			defer func() { <-sem }()
			// the goals of obligations that were NOT discharged (undecided, listed as not claimed) are
			// assumed for what follows them; a path that is only dead because of such an assumption is
			// not a contradiction in the contracts, so those lines are left out of the vacuity query
			skip := map[int]bool{}
			for _, p := range o.ex.obligs {
				if p.Res == nil || p.Res.Status != "unsat" {
					skip[p.AssumeLine] = true
				}
			}
			var b strings.Builder
			b.WriteString(pres[o.ex][0])
			for li, l := range o.ex.e.lines[:o.Cut] {
				if skip[li] {
					continue
				}
				b.WriteString(l)
				b.WriteByte('\n')
			}
			fmt.Fprintf(&b, "(assert %s)\n(check-sat)\n", o.Reach)
			file := filepath.Join(dir, fmt.Sprintf("cover%d.smt2", i))
			os.WriteFile(file, []byte(b.String()), 0o644)
			r := race(file, timeoutS, false, []solverSpec{solvers[0], solvers[1]})
			isVac := r.Status == "unsat"
			if isVac && o.StartCut >= 0 {
				// a branch that is already impossible where its block begins is dead code under the
				// contract (e.g. a loop's condition-exit that its invariant excludes), not a
				// contradiction introduced by an assumption inside the block
				var b2 strings.Builder
				b2.WriteString(pres[o.ex][0])
				for li, l := range o.ex.e.lines[:o.StartCut] {
					if skip[li] {
						continue
					}
					b2.WriteString(l)
					b2.WriteByte('\n')
				}
				fmt.Fprintf(&b2, "(assert %s)\n(check-sat)\n", o.Reach)
				file2 := filepath.Join(dir, fmt.Sprintf("cover%d.start.smt2", i))
				os.WriteFile(file2, []byte(b2.String()), 0o644)
				if r2 := race(file2, timeoutS, false, []solverSpec{solvers[0], solvers[1]}); r2.Status == "unsat" {
					isVac = false
				}
			}
			mu.Lock()
			checked++
			if isVac {
				vacuous = append(vacuous, o.Name)
			}
			mu.Unlock()
		}(i, o)
	}
	wg.Wait()
	return
}
