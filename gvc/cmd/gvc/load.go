package main

import (
	"fmt"
	"go/types"
	"os"
	"path/filepath"
	"sort"
	"strings"

	"golang.org/x/tools/go/packages"
	"golang.org/x/tools/go/ssa"
	"golang.org/x/tools/go/ssa/ssautil"
)

// Gen is the loaded program plus contracts.
type Gen struct {
	guarded        map[string][2]string // heap var of guarded field -> (struct type key, lock field name)
	typeInvQ       map[string][]*Clause
	abruptRely     map[string][]*Clause
	scriptRely     map[string][]*Clause
	abruptHavoc    map[string]bool
	implOf         map[*ssa.Function]*Contract // concrete method -> interface contract it is checked against
	typeInv        map[string]*ssa.Function    // typeKey -> invariant (heap dependent, re-assumed after unknown code)
	createInv      map[string]*ssa.Function
	repo           string
	prog           *ssa.Program
	pkgs           map[string]*ssa.Package // by dir relative to repo ("." for root)
	tpkgs          map[string]*packages.Package
	cs             *ContractSet
	funcs          map[string]*ssa.Function // pkgpath.RelString -> fn
	contracts      map[*ssa.Function]*Contract
	ifaceContracts map[string]*Contract // "pkgpath.T.M"
	concreteTypes  []types.Type
	stable         map[string]bool // heap var names that jsEffect does not change
	jsPreserved    map[string]bool
	overlaySrc     map[string]string
	loadErrs       []string
}

var goEnv []string

func initEnv() {
	os.Setenv("PATH", "/opt/veriftools/go1.26.8/bin:"+os.Getenv("PATH"))
	os.Setenv("GOFLAGS", "-mod=mod")
	os.Setenv("GOPROXY", "off")
	os.Setenv("GOTOOLCHAIN", "local")
	os.Unsetenv("GOSUMDB")
	goEnv = os.Environ()
	// GOSUMDB must not be "off" for the default toolchain switch; with GOTOOLCHAIN=local it is irrelevant.
}

var pkgDirs = []string{".", "parser", "unistring", "ftoa", "file", "token", "ast"}

func loadAll(repo string) (*Gen, error) {
	g := &Gen{repo: repo, pkgs: map[string]*ssa.Package{}, tpkgs: map[string]*packages.Package{}, funcs: map[string]*ssa.Function{}, contracts: map[*ssa.Function]*Contract{}, ifaceContracts: map[string]*Contract{}, stable: map[string]bool{}, jsPreserved: map[string]bool{}, overlaySrc: map[string]string{}}
	cs := &ContractSet{ByFunc: map[string]*Contract{}}
	g.cs = cs
	overlay := map[string][]byte{}
	var patterns []string
	for _, d := range pkgDirs {
		dir := filepath.Join(repo, d)
		files, _ := filepath.Glob(filepath.Join(dir, "zz_verif_contracts*.go"))
		sort.Strings(files)
		nBefore := len(cs.All)
		aBefore := len(cs.Axioms)
		for _, f := range files {
			parseContractFile(cs, f, dir)
		}
		if _, err := os.Stat(dir); err != nil {
			continue
		}
		patterns = append(patterns, "./"+d)
		if len(cs.All) == nBefore && len(cs.Axioms) == aBefore {
			continue
		}
		sp, err := loadSrcPkg(dir)
		if err != nil {
			return nil, fmt.Errorf("parse %s: %v", dir, err)
		}
		src, err := cs.genOverlay(sp, cs.All[nBefore:], cs.Axioms[aBefore:])
		if err != nil {
			return nil, err
		}
		overlay[filepath.Join(dir, "zz_verif_gen_overlay.go")] = []byte(src)
		g.overlaySrc[dir] = src
	}
	cfg := &packages.Config{Mode: packages.LoadAllSyntax, Dir: repo, BuildFlags: []string{"-tags=verif"}, Overlay: overlay, Env: goEnv}
	pkgs, err := packages.Load(cfg, patterns...)
	if err != nil {
		return nil, err
	}
	for _, p := range pkgs {
		for _, e := range p.Errors {
			g.loadErrs = append(g.loadErrs, e.Error())
		}
	}
	if len(g.loadErrs) > 0 {
		return g, fmt.Errorf("tree does not type-check with contracts: %s", strings.Join(g.loadErrs, "; "))
	}
	prog, spkgs := ssautil.AllPackages(pkgs, ssa.InstantiateGenerics|ssa.GlobalDebug)
	prog.Build()
	g.prog = prog
	for i, p := range pkgs {
		if spkgs[i] == nil {
			continue
		}
		var dir string
		if len(p.GoFiles) > 0 {
			dir = filepath.Dir(p.GoFiles[0])
		}
		g.pkgs[dir] = spkgs[i]
		g.tpkgs[dir] = p
	}
	for fn := range ssautil.AllFunctions(prog) {
		if fn.Pkg == nil {
			continue
		}
		g.funcs[fn.Pkg.Pkg.Path()+"."+fn.RelString(fn.Pkg.Pkg)] = fn
	}
	// concrete types of the verified packages (closed-world candidates for interface assertions)
	for _, sp := range g.pkgs {
		sc := sp.Pkg.Scope()
		for _, n := range sc.Names() {
			if tn, ok := sc.Lookup(n).(*types.TypeName); ok && !tn.IsAlias() {
				t := tn.Type()
				if _, isIface := t.Underlying().(*types.Interface); isIface {
					continue
				}
				if nt, ok := t.(*types.Named); ok && nt.TypeParams().Len() > 0 {
					continue
				}
				g.concreteTypes = append(g.concreteTypes, t, types.NewPointer(t))
			}
		}
	}
	sort.Slice(g.concreteTypes, func(i, j int) bool { return typeKey(g.concreteTypes[i]) < typeKey(g.concreteTypes[j]) })
	// resolve contracts
	for _, c := range cs.All {
		sp := g.pkgs[c.PkgDir]
		if sp == nil {
			c.Errors = append(c.Errors, "package not loaded: "+c.PkgDir)
			continue
		}
		path := sp.Pkg.Path()
		if c.IsIface {
			g.ifaceContracts[path+"."+strings.TrimPrefix(c.Func, "iface ")] = c
		} else {
			fn := g.funcs[path+"."+c.Func]
			if fn == nil {
				c.Errors = append(c.Errors, "function not found in SSA: "+c.Func)
				continue
			}
			c.Fn = fn
			g.contracts[fn] = c
			cs.ByFunc[path+"."+c.Func] = c
		}
		bind := func(cl *Clause) {
			if cl.FnName == "" {
				return
			}
			cl.Fn = sp.Func(cl.FnName)
			if cl.Fn == nil {
				c.Errors = append(c.Errors, "clause function missing: "+cl.Text)
			}
		}
		for _, cl := range c.Requires {
			bind(cl)
		}
		for _, cl := range c.Ensures {
			bind(cl)
		}
		for _, cl := range c.EnsuresPanic {
			bind(cl)
		}
		for _, cl := range c.EnsuresAbrupt {
			bind(cl)
		}
		for _, cl := range c.Assigns {
			bind(cl)
		}
		for _, cl := range c.Observe {
			bind(cl)
		}
		for _, cl := range c.ReplayAssume {
			bind(cl)
		}
		for _, ss := range c.Sites {
			for _, cl := range ss.Requires {
				bind(cl)
			}
		}
		for _, ls := range c.Loops {
			for _, cl := range ls.Invariants {
				bind(cl)
			}
			if ls.Decreases != nil {
				bind(ls.Decreases)
			}
		}
	}
	resolveTF := func(list []string, into map[string]bool) {
		tmp := newEmitter(g)
		for _, ent := range list {
			i := strings.Index(ent, "|")
			dir, tf := ent[:i], ent[i+1:]
			sp := g.pkgs[dir]
			j := strings.LastIndex(tf, ".")
			if sp == nil || j < 0 {
				cs.Errors = append(cs.Errors, "cannot resolve field "+tf)
				continue
			}
			h, err := g.lookupField(tmp, sp, tf[:j], tf[j+1:])
			if err != nil {
				cs.Errors = append(cs.Errors, err.Error())
				continue
			}
			into[h] = true
		}
	}
	// `stable T.*` stands for every field of T, including fields added later
	var expanded []string
	for _, ent := range cs.Stable {
		i := strings.Index(ent, "|")
		dir, tf := ent[:i], ent[i+1:]
		if !strings.HasSuffix(tf, ".*") {
			expanded = append(expanded, ent)
			continue
		}
		sp := g.pkgs[dir]
		if sp == nil {
			continue
		}
		obj := sp.Pkg.Scope().Lookup(strings.TrimSuffix(tf, ".*"))
		if obj == nil {
			cs.Errors = append(cs.Errors, "cannot resolve type "+tf)
			continue
		}
		if st, ok := obj.Type().Underlying().(*types.Struct); ok {
			for k := 0; k < st.NumFields(); k++ {
				expanded = append(expanded, dir+"|"+strings.TrimSuffix(tf, "*")+st.Field(k).Name())
			}
		}
	}
	cs.Stable = expanded
	resolveTF(cs.Stable, g.stable)
	resolveTF(cs.JSPreserved, g.jsPreserved)
	g.typeInv = map[string]*ssa.Function{}
	for _, ti := range cs.TypeInv {
		sp := g.pkgs[ti[0]]
		if sp == nil {
			continue
		}
		tn := strings.TrimPrefix(ti[1], "*")
		obj := sp.Pkg.Scope().Lookup(tn)
		fn := sp.Func(ti[2])
		if obj == nil || fn == nil {
			cs.Errors = append(cs.Errors, "typeinv: unknown type or function: "+ti[1]+" "+ti[2])
			continue
		}
		var t types.Type = obj.Type()
		if strings.HasPrefix(ti[1], "*") {
			t = types.NewPointer(t)
		}
		g.typeInv[typeKey(t)] = fn
	}
	g.guarded = map[string][2]string{}
	{
		tmp := newEmitter(g)
		for _, gd := range cs.Guarded {
			sp := g.pkgs[gd[0]]
			j := strings.LastIndex(gd[1], ".")
			k := strings.LastIndex(gd[2], ".")
			if sp == nil || j < 0 || k < 0 {
				continue
			}
			h, err := g.lookupField(tmp, sp, gd[1][:j], gd[1][j+1:])
			if err != nil {
				cs.Errors = append(cs.Errors, err.Error())
				continue
			}
			g.guarded[h] = [2]string{gd[1][:j], gd[2][k+1:]}
		}
	}
	g.abruptHavoc = map[string]bool{}
	resolveTF(cs.AbruptHavoc, g.abruptHavoc)
	g.abruptRely = map[string][]*Clause{}
	g.typeInvQ = map[string][]*Clause{}
	g.scriptRely = map[string][]*Clause{}
	for _, cl := range append(append(append([]*Clause{}, cs.TypeInvQ...), cs.AbruptRely...), cs.ScriptRely...) {
		sp := g.pkgs[cl.Owner.PkgDir]
		if sp == nil || cl.FnName == "" {
			continue
		}
		cl.Fn = sp.Func(cl.FnName)
		tn := strings.TrimPrefix(cl.ObsType, "*")
		obj := sp.Pkg.Scope().Lookup(tn)
		if obj == nil || cl.Fn == nil {
			cs.Errors = append(cs.Errors, "typeinvq: unknown type "+cl.ObsType)
			continue
		}
		var t types.Type = obj.Type()
		if strings.HasPrefix(cl.ObsType, "*") {
			t = types.NewPointer(t)
		}
		if cl.Kind == "scriptrely" {
			g.scriptRely[typeKey(t)] = append(g.scriptRely[typeKey(t)], cl)
			continue
		}
		if cl.Kind == "abruptrely" {
			g.abruptRely[typeKey(t)] = append(g.abruptRely[typeKey(t)], cl)
			continue
		}
		g.typeInvQ[typeKey(t)] = append(g.typeInvQ[typeKey(t)], cl)
	}
	g.createInv = map[string]*ssa.Function{}
	for _, ci := range cs.CreateInv {
		sp := g.pkgs[ci[0]]
		if sp == nil {
			continue
		}
		obj := sp.Pkg.Scope().Lookup(ci[1])
		fn := sp.Func(ci[2])
		if obj == nil || fn == nil {
			cs.Errors = append(cs.Errors, "createinv: unknown type or function: "+ci[1]+" "+ci[2])
			continue
		}
		g.createInv[typeKey(obj.Type())] = fn
	}
	g.implOf = map[*ssa.Function]*Contract{}
	for _, ic := range cs.All {
		if ic.IsIface && len(ic.Errors) == 0 && g.pkgs[ic.PkgDir] != nil {
			for _, d := range g.ifaceImpls(ic) {
				if g.contracts[d.Fn] == nil {
					g.implOf[d.Fn] = ic
				}
			}
		}
	}
	for _, cl := range cs.Axioms {
		sp := g.pkgs[cl.Owner.PkgDir]
		if sp != nil && cl.FnName != "" {
			cl.Fn = sp.Func(cl.FnName)
		}
	}
	return g, nil
}

// closedIface: interfaces with unexported methods declared in the verified packages can only be
// implemented there.
func (g *Gen) closedIface(it *types.Interface) bool {
	for i := 0; i < it.NumMethods(); i++ {
		m := it.Method(i)
		if !m.Exported() && m.Pkg() != nil {
			for _, sp := range g.pkgs {
				if sp.Pkg == m.Pkg() {
					return true
				}
			}
		}
	}
	return false
}

// lookupField resolves "T.f" in package pkg to the heap var name.
func (g *Gen) lookupField(e *Emitter, sp *ssa.Package, tname, fname string) (string, error) {
	obj := sp.Pkg.Scope().Lookup(tname)
	if obj == nil {
		return "", fmt.Errorf("type %s not found", tname)
	}
	st, ok := isStruct(obj.Type())
	if !ok {
		return "", fmt.Errorf("%s is not a struct", tname)
	}
	for i := 0; i < st.NumFields(); i++ {
		if st.Field(i).Name() == fname {
			if _, isS := isStruct(st.Field(i).Type()); isS {
				return "", fmt.Errorf("%s.%s is a struct-typed field", tname, fname)
			}
			h, _ := e.fieldHeap(obj.Type(), i)
			return h, nil
		}
	}
	return "", fmt.Errorf("field %s.%s not found", tname, fname)
}

// ifaceImpls returns, for an interface contract "iface T.M", one derived contract per concrete
// implementation in the verified packages; each implementation is checked against the interface
// contract with self bound to the boxed receiver.
func (g *Gen) ifaceImpls(ic *Contract) []*Contract {
	sp := g.pkgs[ic.PkgDir]
	tm := strings.TrimPrefix(ic.Func, "iface ")
	i := strings.LastIndex(tm, ".")
	tn, mn := tm[:i], tm[i+1:]
	obj := sp.Pkg.Scope().Lookup(tn)
	if obj == nil {
		return nil
	}
	iface, ok := obj.Type().Underlying().(*types.Interface)
	if !ok {
		return nil
	}
	var out []*Contract
	for _, c := range g.concreteTypes {
		if !types.Implements(c, iface) {
			continue
		}
		// skip pointer types whose base type already implements the interface (promoted through *T)
		if p, ok := c.(*types.Pointer); ok && types.Implements(p.Elem(), iface) {
			continue
		}
		ms := g.prog.MethodSets.MethodSet(c)
		sel := ms.Lookup(sp.Pkg, mn)
		if sel == nil {
			continue
		}
		fn := g.prog.MethodValue(sel)
		if fn == nil || len(fn.Blocks) == 0 {
			continue
		}
		if fn.Synthetic != "" {
			// wrapper for a promoted method (embedded type): the embedded implementation is checked itself
			continue
		}
		d := *ic
		d.Fn = fn
		d.IsIface = false
		d.IfaceOf = ic
		d.Func = fn.RelString(fn.Pkg.Pkg)
		d.Errors = nil
		out = append(out, &d)
	}
	return out
}
