package main

// Instruction semantics shared by the forward executor (exec.go) and the lazy evaluator of pure
// functions (clauses, spec functions, functions flagged pure).

import (
	"fmt"
	"go/constant"
	"go/token"
	"go/types"
	"math"
	"math/big"
	"strings"

	"golang.org/x/tools/go/ssa"
)

type Env struct {
	e      *Emitter
	g      *Gen
	quant  bool     // inside a quantifier body: no lines may be emitted
	side   []string // side facts (type-range invariants of loaded values)
	wrap64 bool     // model 64-bit signed arithmetic with wrap-around
	errs   []string
}

func (env *Env) errorf(format string, a ...interface{}) {
	env.errs = append(env.errs, fmt.Sprintf(format, a...))
}

func (env *Env) fact(f string) {
	if f != "" && f != "true" {
		env.side = append(env.side, f)
	}
}

// name gives a closed term a name (no-op inside quantifiers).
func (env *Env) name(prefix, sort, term string) string {
	if env.quant || isAtom(term) || len(term) < 48 {
		return term
	}
	return env.e.define(prefix, sort, term)
}

func fpLit64(f float64) string {
	b := math.Float64bits(f)
	return fmt.Sprintf("(fp #b%b #b%011b #x%013x)", b>>63, (b>>52)&0x7ff, b&((1<<52)-1))
}

func fpLit32(f float32) string {
	b := math.Float32bits(f)
	return fmt.Sprintf("(fp #b%b #b%08b #b%023b)", b>>31, (b>>23)&0xff, b&((1<<23)-1))
}

func (env *Env) constVal(c *ssa.Const) Val {
	e := env.e
	t := c.Type()
	s := e.sortOf(t)
	if c.Value == nil {
		if tp, ok := t.(*types.Tuple); ok {
			var tv []Val
			for i := 0; i < tp.Len(); i++ {
				tv = append(tv, Val{T: e.zeroValue(tp.At(i).Type()), S: e.sortOf(tp.At(i).Type())})
			}
			return Val{Tup: tv}
		}
		return Val{T: e.zeroValue(t), S: s}
	}
	switch s {
	case "Bool":
		if constant.BoolVal(c.Value) {
			return Val{T: "true", S: s}
		}
		return Val{T: "false", S: s}
	case "Int":
		v := constant.ToInt(c.Value)
		if v.Kind() == constant.Int {
			if i, ok := constant.Int64Val(v); ok {
				return Val{T: smtInt(i), S: s}
			}
			bi, _ := new(big.Int).SetString(v.ExactString(), 10)
			if bi.Sign() < 0 {
				return Val{T: "(- " + new(big.Int).Neg(bi).String() + ")", S: s}
			}
			return Val{T: bi.String(), S: s}
		}
		f, _ := constant.Float64Val(c.Value)
		return Val{T: smtInt(int64(f)), S: s}
	case "F64":
		f, _ := constant.Float64Val(constant.ToFloat(c.Value))
		return Val{T: fpLit64(f), S: s}
	case "F32":
		f, _ := constant.Float32Val(constant.ToFloat(c.Value))
		return Val{T: fpLit32(f), S: s}
	case "Str":
		return Val{T: e.strConst(constant.StringVal(c.Value)), S: s}
	}
	return Val{T: e.zeroValue(t), S: s}
}

func deref(t types.Type) types.Type {
	if p, ok := t.Underlying().(*types.Pointer); ok {
		return p.Elem()
	}
	return t
}

func isFloat(t types.Type) bool {
	b, ok := t.Underlying().(*types.Basic)
	return ok && b.Info()&types.IsFloat != 0
}
func isInt(t types.Type) bool {
	b, ok := t.Underlying().(*types.Basic)
	return ok && b.Info()&types.IsInteger != 0
}
func isUnsigned(t types.Type) bool {
	b, ok := t.Underlying().(*types.Basic)
	return ok && b.Info()&types.IsUnsigned != 0
}
func isString(t types.Type) bool {
	b, ok := t.Underlying().(*types.Basic)
	return ok && b.Info()&types.IsString != 0
}
func isIface(t types.Type) bool {
	_, ok := t.Underlying().(*types.Interface)
	return ok
}

// arith wraps the result of integer arithmetic according to the operand type.
func (env *Env) arith(term string, t types.Type) string {
	bits, signed := intBits(t)
	if bits == 64 && signed && !env.wrap64 {
		return term // mathematical; reported as an assumption (or checked in overflow-checked functions)
	}
	return wrapInt(term, t)
}

func constIntTerm(t string) (int64, bool) {
	var v int64
	if _, err := fmt.Sscanf(t, "%d", &v); err == nil && fmt.Sprintf("%d", v) == t {
		return v, true
	}
	return 0, false
}

func (env *Env) uf(name string, argSorts []string, ret string) string {
	e := env.e
	if !e.declared[name] {
		e.declared[name] = true
		e.pre = append(e.pre, fmt.Sprintf("(declare-fun %s (%s) %s)", name, strings.Join(argSorts, " "), ret))
	}
	return name
}

func (env *Env) binop(op token.Token, x, y Val, xt, yt, rt types.Type) Val {
	e := env.e
	rs := e.sortOf(rt)
	switch op {
	case token.ADD, token.SUB, token.MUL, token.QUO, token.REM:
		if isFloat(xt) {
			o := map[token.Token]string{token.ADD: "fp.add RNE", token.SUB: "fp.sub RNE", token.MUL: "fp.mul RNE", token.QUO: "fp.div RNE"}[op]
			if o == "" {
				return env.freshVal("frem", rt)
			}
			return Val{T: fmt.Sprintf("(%s %s %s)", o, x.T, y.T), S: rs}
		}
		if isString(xt) {
			f := env.uf("str_concat", []string{"Str", "Str"}, "Str")
			e.declPre("str_concat_ax", "(assert (forall ((a Str) (b Str)) (! (= (str_len (str_concat a b)) (+ (str_len a) (str_len b))) :pattern ((str_concat a b)))))")
			return Val{T: fmt.Sprintf("(%s %s %s)", f, x.T, y.T), S: "Str"}
		}
		switch op {
		case token.ADD:
			return Val{T: env.arith(fmt.Sprintf("(+ %s %s)", x.T, y.T), rt), S: rs}
		case token.SUB:
			return Val{T: env.arith(fmt.Sprintf("(- %s %s)", x.T, y.T), rt), S: rs}
		case token.MUL:
			_, xc := constIntTerm(x.T)
			_, yc := constIntTerm(y.T)
			if !xc && !yc && !env.quant {
				// a product of two variables is outside linear arithmetic; the element widths that occur
				// in practice (1, 2, 4, 8) are spelled out as tautologies so that the solvers can use them
				p := fmt.Sprintf("(* %s %s)", x.T, y.T)
				for _, ab := range [][2]string{{x.T, y.T}, {y.T, x.T}} {
					env.fact(fmt.Sprintf("(and (=> (= %s 1) (= %s %s)) (=> (= %s 2) (= %s (* 2 %s))) (=> (= %s 4) (= %s (* 4 %s))) (=> (= %s 8) (= %s (* 8 %s))))",
						ab[1], p, ab[0], ab[1], p, ab[0], ab[1], p, ab[0], ab[1], p, ab[0]))
				}
			}
			return Val{T: env.arith(fmt.Sprintf("(* %s %s)", x.T, y.T), rt), S: rs}
		case token.QUO:
			return Val{T: env.arith(fmt.Sprintf("(godiv %s %s)", x.T, y.T), rt), S: rs}
		case token.REM:
			return Val{T: fmt.Sprintf("(gorem %s %s)", x.T, y.T), S: rs}
		}
	case token.AND, token.OR, token.XOR, token.AND_NOT, token.SHL, token.SHR:
		bits, signed := intBits(xt)
		if c, ok := constIntTerm(y.T); ok {
			switch op {
			case token.SHL:
				if c >= 0 && c < 64 {
					return Val{T: wrapInt(fmt.Sprintf("(* %s %s)", x.T, pow2(int(c))), rt), S: rs}
				}
			case token.SHR:
				if c >= 0 && c < 64 {
					return Val{T: fmt.Sprintf("(div %s %s)", x.T, pow2(int(c))), S: rs} // floor division = arithmetic shift
				}
			case token.AND:
				if c >= 0 && c&(c+1) == 0 { // 2^k-1 mask
					k := 0
					for (int64(1)<<uint(k))-1 != c {
						k++
					}
					return Val{T: fmt.Sprintf("(mod %s %s)", x.T, pow2(k)), S: rs}
				}
			case token.AND_NOT:
				if c >= 0 && c&(c+1) == 0 && !signed || c >= 0 && c&(c+1) == 0 {
					k := 0
					for (int64(1)<<uint(k))-1 != c {
						k++
					}
					return Val{T: fmt.Sprintf("(- %s (mod %s %s))", x.T, x.T, pow2(k)), S: rs}
				}
			}
		}
		name := map[token.Token]string{token.AND: "bvand", token.OR: "bvor", token.XOR: "bvxor", token.AND_NOT: "bvandnot", token.SHL: "bvshl", token.SHR: "bvshr"}[op]
		sg := "u"
		if signed {
			sg = "s"
		}
		f := env.uf(fmt.Sprintf("%s_%s%d", name, sg, bits), []string{"Int", "Int"}, "Int")
		t := fmt.Sprintf("(%s %s %s)", f, x.T, y.T)
		env.fact(e.rangeAssume(t, rt))
		return Val{T: t, S: rs}
	case token.EQL, token.NEQ:
		if x.Loc != nil {
			x = env.materialize(x)
		}
		if y.Loc != nil {
			y = env.materialize(y)
		}
		if x.Clo != nil {
			x = Val{T: env.closureTerm(x.Clo), S: "Fn"}
		}
		if y.Clo != nil {
			y = Val{T: env.closureTerm(y.Clo), S: "Fn"}
		}
		var t string
		switch {
		case x.S == "F64" || x.S == "F32":
			t = fmt.Sprintf("(fp.eq %s %s)", x.T, y.T)
		case x.S == "Box":
			t = env.ifaceEq(x.T, y.T)
		case x.S == "Slice":
			t = fmt.Sprintf("(= (s.arr %s) (s.arr %s))", x.T, y.T)
		default:
			t = fmt.Sprintf("(= %s %s)", x.T, y.T)
		}
		if op == token.NEQ {
			t = "(not " + t + ")"
		}
		return Val{T: t, S: "Bool"}
	case token.LSS, token.LEQ, token.GTR, token.GEQ:
		if isFloat(xt) {
			o := map[token.Token]string{token.LSS: "fp.lt", token.LEQ: "fp.leq", token.GTR: "fp.gt", token.GEQ: "fp.geq"}[op]
			return Val{T: fmt.Sprintf("(%s %s %s)", o, x.T, y.T), S: "Bool"}
		}
		if isString(xt) {
			f := env.uf("str_lt", []string{"Str", "Str"}, "Bool")
			switch op {
			case token.LSS:
				return Val{T: fmt.Sprintf("(%s %s %s)", f, x.T, y.T), S: "Bool"}
			case token.GTR:
				return Val{T: fmt.Sprintf("(%s %s %s)", f, y.T, x.T), S: "Bool"}
			case token.LEQ:
				return Val{T: fmt.Sprintf("(not (%s %s %s))", f, y.T, x.T), S: "Bool"}
			default:
				return Val{T: fmt.Sprintf("(not (%s %s %s))", f, x.T, y.T), S: "Bool"}
			}
		}
		o := map[token.Token]string{token.LSS: "<", token.LEQ: "<=", token.GTR: ">", token.GEQ: ">="}[op]
		return Val{T: fmt.Sprintf("(%s %s %s)", o, x.T, y.T), S: "Bool"}
	}
	env.e.note("unsupported binop " + op.String())
	return env.freshVal("binop", rt)
}

// ifaceEq: Go interface equality; float payloads compare with IEEE ==.
func (env *Env) ifaceEq(a, b string) string {
	t := fmt.Sprintf("(= %s %s)", a, b)
	if a == "nilbox" || b == "nilbox" {
		return t
	}
	for _, c := range env.g.concreteTypes {
		if isFloat(c) {
			if _, isNamed := c.(*types.Named); !isNamed {
				continue
			}
			id := env.e.tagOf(c)
			_, unbox := env.e.boxFns(c)
			t = fmt.Sprintf("(ite (and (= (tagof %s) %d) (= (tagof %s) %d)) (fp.eq (%s %s) (%s %s)) %s)", a, id, b, id, unbox, a, unbox, b, t)
		}
	}
	return t
}

// freshVal returns an unconstrained value of Go type t (a fresh constant; inside quantifiers an
// error, since a fresh constant there would be unsound).
func (env *Env) freshVal(prefix string, t types.Type) Val {
	if tp, ok := t.(*types.Tuple); ok {
		var tv []Val
		for i := 0; i < tp.Len(); i++ {
			tv = append(tv, env.freshVal(prefix, tp.At(i).Type()))
		}
		return Val{Tup: tv}
	}
	s := env.e.sortOf(t)
	if env.quant {
		env.errorf("unsupported construct inside quantified clause (%s)", prefix)
	}
	c := env.e.freshConst(prefix, s)
	if !env.quant {
		env.fact(env.e.rangeAssume(c, t))
	}
	return Val{T: c, S: s}
}

func (env *Env) convert(x Val, from, to types.Type) Val {
	e := env.e
	ts := e.sortOf(to)
	switch {
	case isInt(from) && isInt(to):
		fb, fs := intBits(from)
		tb, tsg := intBits(to)
		if fb < tb && (fs == tsg || !fs) || fb == tb && fs == tsg {
			return Val{T: x.T, S: ts}
		}
		return Val{T: wrapInt(x.T, to), S: ts}
	case isInt(from) && isFloat(to):
		if ts == "F64" {
			env.convAxioms()
			return Val{T: fmt.Sprintf("(i2f64 %s)", x.T), S: ts}
		}
		return Val{T: fmt.Sprintf("((_ to_fp 8 24) RNE (to_real %s))", x.T), S: ts}
	case isFloat(from) && isInt(to):
		// in range: exact truncation; out of range (or NaN): Go leaves the result implementation-defined
		lo, hi, _ := intRange(to)
		uf := env.uf("f2i_unspec_"+typeKey(to), []string{x.S}, "Int")
		e.declPre("f2i_unspec_rng_"+typeKey(to), fmt.Sprintf("(assert (forall ((f %s)) (! (and (<= %s (%s f)) (<= (%s f) %s)) :pattern ((%s f)))))", x.S, lo, uf, uf, hi, uf))
		if x.S == "F64" {
			env.convAxioms()
			bits, signed := intBits(to)
			var inr string
			switch {
			case bits == 64 && signed:
				inr = fmt.Sprintf("(and (fp.geq %s %s) (fp.lt %s %s))", x.T, fpLit64(-9223372036854775808.0), x.T, fpLit64(9223372036854775808.0))
			case bits == 64:
				inr = fmt.Sprintf("(and (fp.gt %s %s) (fp.lt %s %s))", x.T, fpLit64(-1), x.T, fpLit64(18446744073709551616.0))
			case signed:
				inr = fmt.Sprintf("(and (fp.gt %s %s) (fp.lt %s %s))", x.T, fpLit64(-float64(uint64(1)<<uint(bits-1))-1), x.T, fpLit64(float64(uint64(1)<<uint(bits-1))))
			default:
				inr = fmt.Sprintf("(and (fp.gt %s %s) (fp.lt %s %s))", x.T, fpLit64(-1), x.T, fpLit64(float64(uint64(1)<<uint(bits))))
			}
			return Val{T: fmt.Sprintf("(ite %s (f2i64 %s) (%s %s))", inr, x.T, uf, x.T), S: ts}
		}
		tr := fmt.Sprintf("(to_int (fp.to_real (fp.roundToIntegral RTZ %s)))", x.T)
		t := fmt.Sprintf("(ite (and (not (fp.isNaN %s)) (not (fp.isInfinite %s)) (<= %s %s) (<= %s %s)) %s (%s %s))", x.T, x.T, lo, tr, tr, hi, tr, uf, x.T)
		return Val{T: t, S: ts}
	case isFloat(from) && isFloat(to):
		if x.S == ts {
			return x
		}
		if ts == "F64" {
			return Val{T: fmt.Sprintf("((_ to_fp 11 53) RNE %s)", x.T), S: ts}
		}
		return Val{T: fmt.Sprintf("((_ to_fp 8 24) RNE %s)", x.T), S: ts}
	}
	if x.S == ts && x.Loc == nil {
		return Val{T: x.T, S: ts}
	}
	if x.Loc != nil && ts == "Ref" {
		return x
	}
	if x.Loc != nil {
		x = env.materialize(x)
	}
	if x.Clo != nil {
		x = Val{T: env.closureTerm(x.Clo), S: "Fn"}
	}
	f := env.uf("conv_"+typeKey(from)+"_to_"+typeKey(to), []string{x.S}, ts)
	e.note("conversion modelled as uninterpreted function: " + from.String() + " -> " + to.String())
	return Val{T: fmt.Sprintf("(%s %s)", f, x.T), S: ts}
}

// convAxioms declares int64<->float64 conversion as uninterpreted functions with true facts about
// them (machine conversions; listed as an assumption): exact and invertible up to 2^53, monotone,
// integral results, anchors. Avoids Int/Real/FP theory mixing, which the solvers do not decide in time.
func (env *Env) convAxioms() {
	e := env.e
	if e.declared["i2f64"] {
		return
	}
	e.declared["i2f64"] = true
	p53 := fpLit64(9007199254740992.0)
	m53 := fpLit64(-9007199254740992.0)
	ax := []string{
		"(declare-fun i2f64 (Int) F64)",
		"(declare-fun f2i64 (F64) Int)",
		"(assert (forall ((i Int)) (! (=> (<= (- 18446744073709551616) i 18446744073709551616) (let ((x (i2f64 i))) (and (not (fp.isNaN x)) (not (fp.isInfinite x)) (fp.eq (fp.roundToIntegral RTZ x) x) (=> (fp.isZero x) (fp.isPositive x)) (= (fp.isZero x) (= i 0)) (= (fp.isNegative x) (< i 0))))) :pattern ((i2f64 i)))))",
		"(assert (forall ((i Int) (j Int)) (! (=> (<= i j) (fp.leq (i2f64 i) (i2f64 j))) :pattern ((i2f64 i) (i2f64 j)))))",
		"(assert (forall ((i Int) (j Int)) (! (=> (and (< i j) (<= (- 9007199254740992) i) (<= j 9007199254740992)) (fp.lt (i2f64 i) (i2f64 j))) :pattern ((i2f64 i) (i2f64 j)))))",
		"(assert (forall ((i Int)) (! (=> (<= (- 9007199254740992) i 9007199254740992) (= (f2i64 (i2f64 i)) i)) :pattern ((i2f64 i)))))",
		"(assert (forall ((f F64)) (! (=> (and (not (fp.isNaN f)) (not (fp.isInfinite f))) (and (= (f2i64 f) (f2i64 (fp.roundToIntegral RTZ f))) (=> (fp.eq (fp.roundToIntegral RTZ f) f) (fp.eq (i2f64 (f2i64 f)) f)) (= (= (f2i64 f) 0) (fp.lt (fp.abs f) " + fpLit64(1) + ")) (=> (fp.geq f " + fpLit64(1) + ") (> (f2i64 f) 0)) (=> (fp.leq f " + fpLit64(-1) + ") (< (f2i64 f) 0)))) :pattern ((f2i64 f)))))",
		"(assert (forall ((f F64) (g F64)) (! (=> (and (not (fp.isNaN f)) (not (fp.isInfinite f)) (not (fp.isNaN g)) (not (fp.isInfinite g)) (fp.leq f g)) (<= (f2i64 f) (f2i64 g))) :pattern ((f2i64 f) (f2i64 g)))))",
	}
	anchors := []float64{0, 1, -1, 2, 255, 256, 32767, 32768, -32768, 65535, 65536, 2147483647, 2147483648, -2147483648, 4294967295, 4294967296, 9007199254740991, 9007199254740992, -9007199254740991, -9007199254740992, 18014398509481984, -18014398509481984, 9223372036854775808.0, -9223372036854775808.0, 18446744073709551616.0}
	for _, a := range anchors {
		var is string
		switch a {
		case 9223372036854775808.0:
			is = "9223372036854775808"
		case -9223372036854775808.0:
			is = "(- 9223372036854775808)"
		case 18446744073709551616.0:
			is = "18446744073709551616"
		default:
			is = smtInt(int64(a))
		}
		ax = append(ax, fmt.Sprintf("(assert (and (= (i2f64 %s) %s) (= (f2i64 %s) %s)))", is, fpLit64(a), fpLit64(a), is))
	}
	// values beyond 2^53 round to doubles at or beyond 2^53
	ax = append(ax, fmt.Sprintf("(assert (forall ((i Int)) (! (and (=> (> i 9007199254740992) (fp.geq (i2f64 i) %s)) (=> (< i (- 9007199254740992)) (fp.leq (i2f64 i) %s))) :pattern ((i2f64 i)))))", p53, m53))
	e.pre = append(e.pre, "@CONV@")
	e.convAx = ax
	e.convExact = []string{
		"(define-fun i2f64 ((i Int)) F64 ((_ to_fp 11 53) RNE ((_ int2bv 66) i)))",
		"(define-fun f2i64 ((f F64)) Int (let ((b ((_ fp.to_sbv 66) RTZ f))) (- (bv2int b) (ite (= ((_ extract 65 65) b) #b1) 73786976294838206464 0))))",
	}
	e.note("assumed: int64<->float64 machine conversions axiomatised (exact up to 2^53, monotone, integral, anchors)")
}

// materialize turns a symbolic location into a Ref term (identity only; the contents stay where they are).
func (env *Env) materialize(v Val) Val {
	if v.Loc == nil {
		return v
	}
	l := v.Loc
	switch l.Kind {
	case LField:
		return Val{T: fmt.Sprintf("(subref %d %s)", env.e.fieldID("&"+l.Heap), l.Base), S: "Ref"}
	case LCell:
		return Val{T: l.Base, S: "Ref"}
	case LGlobal:
		return Val{T: env.e.declConst("gref_"+l.Heap, "Ref"), S: "Ref"}
	}
	env.e.note("interior pointer escapes; identity abstracted")
	return Val{T: env.e.freshConst("ptr", "Ref"), S: "Ref"}
}

// loadVal reads the value of Go type t that pointer value p points to.
func (env *Env) loadVal(st *State, p Val, t types.Type) Val {
	e := env.e
	s := e.sortOf(t)
	if p.Loc != nil {
		term := e.load(st, p.Loc)
		term = env.name("ld", s, term)
		env.fact(e.rangeAssume(term, t))
		return Val{T: term, S: s}
	}
	if _, ok := isStruct(t); ok {
		return Val{T: env.name("lds", s, e.loadStruct(st, t, p.T)), S: s}
	}
	h := e.cellHeap(t)
	term := env.name("ld", s, fmt.Sprintf("(select %s %s)", st.get(h), p.T))
	env.fact(e.rangeAssume(term, t))
	return Val{T: term, S: s}
}

// evalInstr computes value-producing, state-independent instructions (loads take the state).
func (env *Env) evalInstr(in ssa.Instruction, get func(ssa.Value) Val, st *State) (Val, bool) {
	e := env.e
	switch in := in.(type) {
	case *ssa.BinOp:
		return env.binop(in.Op, get(in.X), get(in.Y), in.X.Type(), in.Y.Type(), in.Type()), true
	case *ssa.UnOp:
		x := get(in.X)
		switch in.Op {
		case token.NOT:
			return Val{T: "(not " + x.T + ")", S: "Bool"}, true
		case token.SUB:
			if isFloat(in.Type()) {
				return Val{T: "(fp.neg " + x.T + ")", S: x.S}, true
			}
			return Val{T: env.arith("(- "+x.T+")", in.Type()), S: "Int"}, true
		case token.XOR:
			bits, signed := intBits(in.Type())
			if signed {
				return Val{T: fmt.Sprintf("(- (- %s) 1)", x.T), S: "Int"}, true
			}
			return Val{T: fmt.Sprintf("(- %s 1 %s)", pow2(bits), x.T), S: "Int"}, true
		case token.MUL:
			return env.loadVal(st, x, in.Type()), true
		}
	case *ssa.FieldAddr:
		x := get(in.X)
		st := deref(in.X.Type())
		s, _ := isStruct(st)
		if x.Loc != nil && (x.Loc.Kind == LLocal || x.Loc.Kind == LFieldOf) {
			if _, isS := isStruct(x.Loc.Typ); isS {
				// field of a struct value held in a local variable
				return Val{Loc: &Loc{Kind: LFieldOf, Parent: x.Loc, Idx: fmt.Sprintf("%d", in.Field), Typ: s.Field(in.Field).Type()}, S: "Ref"}, true
			}
		}
		if x.Loc != nil {
			x = env.materialize(x)
		}
		ft := s.Field(in.Field).Type()
		if _, ok := isStruct(ft); ok {
			return Val{T: e.subRef(st, in.Field, x.T), S: "Ref"}, true
		}
		h, _ := e.fieldHeap(st, in.Field)
		return Val{Loc: &Loc{Kind: LField, Base: x.T, Heap: h, Typ: ft}, S: "Ref"}, true
	case *ssa.Field:
		x := get(in.X)
		s, _ := isStruct(in.X.Type())
		name := e.sortOf(in.X.Type())
		return Val{T: fmt.Sprintf("(%s.%s %s)", name, fieldName(s.Field(in.Field), in.Field), x.T), S: e.sortOf(in.Type())}, true
	case *ssa.IndexAddr:
		x := get(in.X)
		i := get(in.Index)
		switch xt := in.X.Type().Underlying().(type) {
		case *types.Slice:
			idx := fmt.Sprintf("(+ (s.off %s) %s)", x.T, i.T)
			if _, ok := isStruct(xt.Elem()); ok {
				// elemat(S, i) = elemref(arr S, off S + i): an uninterpreted symbol with the bound
				// index as a direct argument gives the solvers a usable trigger
				e.declPre("elemat", "(declare-fun elemat (ArrRef Int Int) Ref)\n(assert (forall ((a ArrRef) (o Int) (i Int)) (! (= (elemat a o i) (elemref a (+ o i))) :pattern ((elemat a o i)))))")
				return Val{T: fmt.Sprintf("(elemat (s.arr %s) (s.off %s) %s)", x.T, x.T, i.T), S: "Ref"}, true
			}
			return Val{Loc: &Loc{Kind: LElem, Base: fmt.Sprintf("(s.arr %s)", x.T), Idx: idx, Heap: e.elemHeap(xt.Elem()), Typ: xt.Elem()}, S: "Ref"}, true
		case *types.Pointer:
			at := xt.Elem().Underlying().(*types.Array)
			if x.Loc != nil && x.Loc.Kind == LArr {
				if _, ok := isStruct(at.Elem()); ok {
					return Val{T: fmt.Sprintf("(elemref %s %s)", x.Loc.Base, i.T), S: "Ref"}, true
				}
				return Val{Loc: &Loc{Kind: LElem, Base: x.Loc.Base, Idx: i.T, Heap: e.elemHeap(at.Elem()), Typ: at.Elem()}, S: "Ref"}, true
			}
			var parent *Loc
			if x.Loc != nil {
				parent = x.Loc
			} else {
				parent = &Loc{Kind: LCell, Base: x.T, Heap: e.cellHeap(xt.Elem()), Typ: xt.Elem()}
			}
			if _, ok := isStruct(at.Elem()); ok {
				e.note("array of structs: element identity abstracted")
				return env.freshVal("aelem", in.Type()), true
			}
			return Val{Loc: &Loc{Kind: LSub, Parent: parent, Idx: i.T, Typ: at.Elem()}, S: "Ref"}, true
		}
	case *ssa.Index:
		x := get(in.X)
		i := get(in.Index)
		if isString(in.X.Type()) {
			t := fmt.Sprintf("(str_at %s %s)", x.T, i.T)
			env.fact(fmt.Sprintf("(and (<= 0 %s) (<= %s 255))", t, t))
			return Val{T: t, S: "Int"}, true
		}
		return Val{T: fmt.Sprintf("(select %s %s)", x.T, i.T), S: e.sortOf(in.Type())}, true
	case *ssa.Lookup:
		x := get(in.X)
		i := get(in.Index)
		if isString(in.X.Type()) {
			t := fmt.Sprintf("(str_at %s %s)", x.T, i.T)
			env.fact(fmt.Sprintf("(and (<= 0 %s) (<= %s 255))", t, t))
			return Val{T: t, S: "Int"}, true
		}
		mt := in.X.Type().Underlying().(*types.Map)
		dom, val := e.mapHeaps(mt)
		vs := e.sortOf(mt.Elem())
		d := fmt.Sprintf("(select (select %s %s) %s)", st.get(dom), x.T, i.T)
		v := fmt.Sprintf("(ite %s (select (select %s %s) %s) %s)", d, st.get(val), x.T, i.T, e.zeroValue(mt.Elem()))
		v = env.name("mlk", vs, v)
		env.fact(e.rangeAssume(v, mt.Elem()))
		if in.CommaOk {
			return Val{Tup: []Val{{T: v, S: vs}, {T: d, S: "Bool"}}}, true
		}
		return Val{T: v, S: vs}, true
	case *ssa.Slice:
		x := get(in.X)
		var lo, hi, mx string
		if in.Low != nil {
			lo = get(in.Low).T
		} else {
			lo = "0"
		}
		switch in.X.Type().Underlying().(type) {
		case *types.Slice:
			if in.High != nil {
				hi = get(in.High).T
			} else {
				hi = fmt.Sprintf("(s.len %s)", x.T)
			}
			if in.Max != nil {
				mx = get(in.Max).T
			} else {
				mx = fmt.Sprintf("(s.cap %s)", x.T)
			}
			t := fmt.Sprintf("(mk-slice (s.arr %s) (+ (s.off %s) %s) (- %s %s) (- %s %s))", x.T, x.T, lo, hi, lo, mx, lo)
			return Val{T: env.name("slc", "Slice", t), S: "Slice"}, true
		case *types.Basic: // string
			if in.High != nil {
				hi = get(in.High).T
			} else {
				hi = fmt.Sprintf("(str_len %s)", x.T)
			}
			f := env.uf("str_sub", []string{"Str", "Int", "Int"}, "Str")
			e.declPre("str_sub_ax", "(assert (forall ((s Str) (a Int) (b Int)) (! (=> (and (<= 0 a) (<= a b) (<= b (str_len s))) (= (str_len (str_sub s a b)) (- b a))) :pattern ((str_sub s a b)))))\n(assert (forall ((s Str) (a Int) (b Int) (i Int)) (! (=> (and (<= 0 a) (<= a b) (<= b (str_len s)) (<= 0 i) (< i (- b a))) (= (str_at (str_sub s a b) i) (str_at s (+ a i)))) :pattern ((str_at (str_sub s a b) i)))))")
			sub := fmt.Sprintf("(%s %s %s %s)", f, x.T, lo, hi)
			if !env.quant {
				// ground instance of the length axiom (kept when quantified facts are dropped for model finding)
				env.fact(fmt.Sprintf("(=> (and (<= 0 %s) (<= %s %s) (<= %s (str_len %s))) (= (str_len %s) (- %s %s)))", lo, lo, hi, hi, x.T, sub, hi, lo))
			}
			return Val{T: sub, S: "Str"}, true
		}
		if x.Loc != nil && x.Loc.Kind == LArr {
			at := deref(in.X.Type()).Underlying().(*types.Array)
			if in.High != nil {
				hi = get(in.High).T
			} else {
				hi = fmt.Sprintf("%d", at.Len())
			}
			t := fmt.Sprintf("(mk-slice %s %s (- %s %s) (- %d %s))", x.Loc.Base, lo, hi, lo, at.Len(), lo)
			return Val{T: env.name("slc", "Slice", t), S: "Slice"}, true
		}
		e.note("slice of array pointer: abstracted")
		return env.freshVal("slc", in.Type()), true
	case *ssa.Convert:
		if sl, ok := in.X.Type().Underlying().(*types.Slice); ok && !env.quant {
			if b, ok := sl.Elem().Underlying().(*types.Basic); ok && b.Kind() == types.Uint8 {
				if tb, ok := in.Type().Underlying().(*types.Basic); ok && tb.Info()&types.IsString != 0 {
					// string(bytes): a string with exactly these bytes (as they are now)
					x := get(in.X)
					c := e.freshConst("bstr", "Str")
					h := st.get(e.elemHeap(sl.Elem()))
					env.fact(fmt.Sprintf("(= (str_len %s) (s.len %s))", c, x.T))
					i := e.fresh("bv_i")
					env.fact(fmt.Sprintf("(forall ((%s Int)) (! (=> (and (<= 0 %s) (< %s (s.len %s))) (= (str_at %s %s) (select (select %s (s.arr %s)) (+ (s.off %s) %s)))) :pattern ((str_at %s %s))))", i, i, i, x.T, c, i, h, x.T, x.T, i, c, i))
					return Val{T: c, S: "Str"}, true
				}
			}
		}
		return env.convert(get(in.X), in.X.Type(), in.Type()), true
	case *ssa.ChangeType:
		x := get(in.X)
		if x.Loc != nil || x.Clo != nil {
			return x, true
		}
		ts := e.sortOf(in.Type())
		if ts != x.S {
			return env.convert(x, in.X.Type(), in.Type()), true
		}
		return x, true
	case *ssa.ChangeInterface:
		return get(in.X), true
	case *ssa.MakeInterface:
		x := get(in.X)
		if x.Loc != nil {
			x = env.materialize(x)
		}
		if x.Clo != nil {
			x = Val{T: env.closureTerm(x.Clo), S: "Fn"}
		}
		box, _ := e.boxFns(in.X.Type())
		return Val{T: fmt.Sprintf("(%s %s)", box, x.T), S: "Box"}, true
	case *ssa.TypeAssert:
		x := get(in.X)
		var ok, val string
		if isIface(in.AssertedType) {
			ok = e.implementsTerm(fmt.Sprintf("(tagof %s)", x.T), in.AssertedType, false)
			val = x.T
		} else {
			id := e.tagOf(in.AssertedType)
			_, unbox := e.boxFns(in.AssertedType)
			ok = fmt.Sprintf("(= (tagof %s) %d)", x.T, id)
			val = fmt.Sprintf("(%s %s)", unbox, x.T)
		}
		vs := e.sortOf(in.AssertedType)
		if in.CommaOk {
			if !isIface(in.AssertedType) {
				val = fmt.Sprintf("(ite %s %s %s)", ok, val, e.zeroValue(in.AssertedType))
			} else {
				val = fmt.Sprintf("(ite %s %s nilbox)", ok, val)
			}
			return Val{Tup: []Val{{T: val, S: vs}, {T: ok, S: "Bool"}}}, true
		}
		if !env.quant {
			env.fact(e.rangeAssume(val, in.AssertedType))
		}
		return Val{T: val, S: vs}, true
	case *ssa.Extract:
		t := get(in.Tuple)
		if in.Index < len(t.Tup) {
			return t.Tup[in.Index], true
		}
		return env.freshVal("ext", in.Type()), true
	case *ssa.MakeClosure:
		var bs []Val
		for _, b := range in.Bindings {
			bs = append(bs, get(b))
		}
		return Val{Clo: &Closure{Fn: in.Fn, Bindings: bs}, S: "Fn"}, true
	}
	return Val{}, false
}

func (env *Env) closureTerm(c *Closure) string {
	fn := c.Fn.(*ssa.Function)
	name := "fn_" + sanitize(fn.String())
	if len(c.Bindings) == 0 {
		return env.e.declConst(name, "Fn")
	}
	env.e.note("closure value abstracted to an opaque function value: " + fn.String())
	return env.e.freshConst(name, "Fn")
}

func (e *Emitter) mapHeaps(mt *types.Map) (dom, val string) {
	k := typeKey(mt.Key()) + "_" + typeKey(mt.Elem())
	dom, val = "Mdom_"+k, "Mval_"+k
	e.regHeap(dom, "(Array Ref (Array "+e.sortOf(mt.Key())+" Bool))")
	e.regHeap(val, "(Array Ref (Array "+e.sortOf(mt.Key())+" "+e.sortOf(mt.Elem())+"))")
	return
}

// valueOf handles the non-instruction SSA values.
func (env *Env) valueOf(v ssa.Value) (Val, bool) {
	e := env.e
	switch v := v.(type) {
	case *ssa.Const:
		return env.constVal(v), true
	case *ssa.Global:
		t := deref(v.Type())
		name := "G_" + sanitize(v.Pkg.Pkg.Name()+"."+v.Name())
		if _, ok := isStruct(t); ok {
			return Val{T: e.declConst("gref_"+name, "Ref"), S: "Ref"}, true
		}
		e.regHeap(name, e.sortOf(t))
		return Val{Loc: &Loc{Kind: LGlobal, Heap: name, Typ: t}, S: "Ref"}, true
	case *ssa.Function:
		return Val{Clo: &Closure{Fn: v}, S: "Fn"}, true
	case *ssa.Builtin:
		return Val{T: "nilfn", S: "Fn"}, true
	}
	return Val{}, false
}

// mathCall models the pure standard-library functions the carriers use.
func (env *Env) mathCall(name string, args []Val, rt types.Type) (Val, bool) {
	a := func(i int) string { return args[i].T }
	switch name {
	case "math.Trunc":
		return Val{T: "(fp.roundToIntegral RTZ " + a(0) + ")", S: "F64"}, true
	case "math.Floor":
		return Val{T: "(fp.roundToIntegral RTN " + a(0) + ")", S: "F64"}, true
	case "math.Ceil":
		return Val{T: "(fp.roundToIntegral RTP " + a(0) + ")", S: "F64"}, true
	case "math.RoundToEven":
		return Val{T: "(fp.roundToIntegral RNE " + a(0) + ")", S: "F64"}, true
	case "math.Round":
		return Val{T: "(fp.roundToIntegral RNA " + a(0) + ")", S: "F64"}, true
	case "math.Abs":
		return Val{T: "(fp.abs " + a(0) + ")", S: "F64"}, true
	case "math.IsNaN":
		return Val{T: "(fp.isNaN " + a(0) + ")", S: "Bool"}, true
	case "math.NaN":
		return Val{T: "(_ NaN 11 53)", S: "F64"}, true
	case "math.Sqrt":
		return Val{T: "(fp.sqrt RNE " + a(0) + ")", S: "F64"}, true
	case "math.Inf":
		return Val{T: fmt.Sprintf("(ite (>= %s 0) (_ +oo 11 53) (_ -oo 11 53))", a(0)), S: "F64"}, true
	case "math.IsInf":
		return Val{T: fmt.Sprintf("(and (fp.isInfinite %s) (=> (> %s 0) (fp.isPositive %s)) (=> (< %s 0) (fp.isNegative %s)))", a(0), a(1), a(0), a(1), a(0)), S: "Bool"}, true
	case "math.Signbit":
		// one NaN in SMT-LIB: the sign of a NaN is not modelled (stated gap)
		return Val{T: "(fp.isNegative " + a(0) + ")", S: "Bool"}, true
	case "math.Copysign":
		return Val{T: fmt.Sprintf("(ite (= (fp.isNegative %s) (fp.isNegative %s)) %s (fp.neg %s))", a(0), a(1), a(0), a(0)), S: "F64"}, true
	case "math.Max":
		return Val{T: fmt.Sprintf("(ite (or (fp.isNaN %s) (fp.isNaN %s)) (_ NaN 11 53) (fp.max %s %s))", a(0), a(1), a(0), a(1)), S: "F64"}, true
	case "math.Min":
		return Val{T: fmt.Sprintf("(ite (or (fp.isNaN %s) (fp.isNaN %s)) (_ NaN 11 53) (fp.min %s %s))", a(0), a(1), a(0), a(1)), S: "F64"}, true
	case "math.Mod", "math.Pow", "math.Log", "math.Exp", "math.Sin", "math.Cos", "math.Atan2", "math.Hypot", "math.Cbrt", "math.Log2", "math.Log10", "math.Log1p", "math.Expm1", "math.Tan", "math.Asin", "math.Acos", "math.Atan", "math.Sinh", "math.Cosh", "math.Tanh", "math.Asinh", "math.Acosh", "math.Atanh":
		var sorts, ts []string
		for _, x := range args {
			sorts = append(sorts, x.S)
			ts = append(ts, x.T)
		}
		f := env.uf("uf_"+strings.ReplaceAll(name, ".", "_"), sorts, "F64")
		env.e.note("pure math function modelled as uninterpreted: " + name)
		return Val{T: fmt.Sprintf("(%s %s)", f, strings.Join(ts, " ")), S: "F64"}, true
	case "math.Float64bits":
		f := env.uf("f64bits", []string{"F64"}, "Int")
		env.e.declPre("f64bits_ax", "(declare-fun f64frombits (Int) F64)\n(assert (forall ((f F64)) (! (and (<= 0 (f64bits f)) (< (f64bits f) 18446744073709551616) (=> (not (fp.isNaN f)) (= (f64frombits (f64bits f)) f))) :pattern ((f64bits f)))))")
		return Val{T: fmt.Sprintf("(%s %s)", f, a(0)), S: "Int"}, true
	case "math.Float64frombits":
		env.uf("f64bits", []string{"F64"}, "Int")
		env.e.declPre("f64bits_ax", "(declare-fun f64frombits (Int) F64)\n(assert (forall ((f F64)) (! (and (<= 0 (f64bits f)) (< (f64bits f) 18446744073709551616) (=> (not (fp.isNaN f)) (= (f64frombits (f64bits f)) f))) :pattern ((f64bits f)))))")
		return Val{T: fmt.Sprintf("(f64frombits %s)", a(0)), S: "F64"}, true
	}
	return Val{}, false
}

// ---------------------------------------------------------------------------------------------
// Lazy evaluator of pure functions.

const (
	modeCur = 0
	modeOld = 1
)

type pureKey struct {
	v    ssa.Value
	mode int
}

type Pure struct {
	env      *Env
	fn       *ssa.Function
	args     []Val
	fv       []Val
	cur, old *State
	memo     map[pureKey]Val
	reachM   map[pureKey]string // keyed by block's first instr? use block index via map below
	reachB   map[[2]int]string
	busy     map[pureKey]bool
	depth    int
}

// evalPure evaluates fn(args) under heap states cur (and old for old(...)).
func (env *Env) evalPure(fn *ssa.Function, args []Val, fv []Val, cur, old *State, depth int) Val {
	if depth > 16 {
		env.errorf("pure evaluation too deep (recursive spec function?) at %s", fn.String())
		return env.freshVal("deep", fn.Signature.Results())
	}
	if len(fn.Blocks) == 0 {
		env.errorf("pure call to function without body: %s", fn.String())
		return env.freshVal("nobody", fn.Signature.Results())
	}
	p := &Pure{env: env, fn: fn, args: args, fv: fv, cur: cur, old: old, memo: map[pureKey]Val{}, reachB: map[[2]int]string{}, depth: depth}
	// collect returns
	type ret struct {
		b *ssa.BasicBlock
		r *ssa.Return
	}
	var rets []ret
	for _, b := range fn.Blocks {
		if r, ok := b.Instrs[len(b.Instrs)-1].(*ssa.Return); ok {
			rets = append(rets, ret{b, r})
		}
	}
	if len(rets) == 0 {
		env.errorf("pure function never returns: %s", fn.String())
		return env.freshVal("noret", fn.Signature.Results())
	}
	nres := fn.Signature.Results().Len()
	if nres == 0 {
		return Val{}
	}
	one := func(i int) Val {
		acc := p.term(rets[len(rets)-1].r.Results[i], modeCur)
		for k := len(rets) - 2; k >= 0; k-- {
			v := p.term(rets[k].r.Results[i], modeCur)
			acc = env.ite(p.reach(rets[k].b, modeCur), v, acc)
		}
		return acc
	}
	if nres == 1 {
		return one(0)
	}
	var tv []Val
	for i := 0; i < nres; i++ {
		tv = append(tv, one(i))
	}
	return Val{Tup: tv}
}

// ite merges two values structurally.
func (env *Env) ite(c string, a, b Val) Val {
	if c == "true" {
		return a
	}
	if c == "false" {
		return b
	}
	if a.Tup != nil || b.Tup != nil {
		var tv []Val
		for i := range a.Tup {
			tv = append(tv, env.ite(c, a.Tup[i], b.Tup[i]))
		}
		return Val{Tup: tv}
	}
	if a.Loc != nil || b.Loc != nil {
		if a.Loc != nil && b.Loc != nil && a.Loc.Kind == b.Loc.Kind && a.Loc.Heap == b.Loc.Heap && a.Loc.Kind != LSub {
			l := *a.Loc
			if a.Loc.Base != b.Loc.Base {
				l.Base = fmt.Sprintf("(ite %s %s %s)", c, a.Loc.Base, b.Loc.Base)
			}
			if a.Loc.Idx != b.Loc.Idx {
				l.Idx = fmt.Sprintf("(ite %s %s %s)", c, a.Loc.Idx, b.Loc.Idx)
			}
			return Val{Loc: &l, S: "Ref"}
		}
		a, b = env.materialize(a), env.materialize(b)
	}
	if a.Clo != nil || b.Clo != nil {
		if a.Clo != nil && b.Clo != nil && a.Clo.Fn == b.Clo.Fn && len(a.Clo.Bindings) == 0 {
			return a
		}
		if a.Clo != nil {
			a = Val{T: env.closureTerm(a.Clo), S: "Fn"}
		}
		if b.Clo != nil {
			b = Val{T: env.closureTerm(b.Clo), S: "Fn"}
		}
	}
	if a.T == b.T {
		return a
	}
	if a.S == "Bool" {
		// keep Boolean structure readable for the solvers' trigger inference
		switch {
		case a.T == "true":
			return Val{T: fmt.Sprintf("(or %s %s)", c, b.T), S: "Bool"}
		case a.T == "false":
			return Val{T: fmt.Sprintf("(and (not %s) %s)", c, b.T), S: "Bool"}
		case b.T == "true":
			return Val{T: fmt.Sprintf("(=> %s %s)", c, a.T), S: "Bool"}
		case b.T == "false":
			return Val{T: fmt.Sprintf("(and %s %s)", c, a.T), S: "Bool"}
		}
	}
	return Val{T: fmt.Sprintf("(ite %s %s %s)", c, a.T, b.T), S: a.S}
}

func (p *Pure) state(mode int) *State {
	if mode == modeOld && p.old != nil {
		return p.old
	}
	return p.cur
}

func (p *Pure) reach(b *ssa.BasicBlock, mode int) string {
	if b.Index == 0 {
		return "true"
	}
	k := [2]int{b.Index, mode}
	if r, ok := p.reachB[k]; ok {
		return r
	}
	p.reachB[k] = "false" // cycle guard (pure functions must be loop-free)
	var ds []string
	for _, pr := range b.Preds {
		if pr.Index >= b.Index && dominates(b, pr) {
			p.env.errorf("loop in pure function %s", p.fn.String())
			continue
		}
		ds = append(ds, p.edge(pr, b, mode))
	}
	r := "false"
	if len(ds) == 1 {
		r = ds[0]
	} else if len(ds) > 1 {
		r = "(or " + strings.Join(ds, " ") + ")"
	}
	r = p.env.name("pr", "Bool", r)
	p.reachB[k] = r
	return r
}

func dominates(a, b *ssa.BasicBlock) bool { return a.Dominates(b) }

// edge: condition under which control flows from pr to b.
func (p *Pure) edge(pr, b *ssa.BasicBlock, mode int) string {
	r := p.reach(pr, mode)
	if iff, ok := pr.Instrs[len(pr.Instrs)-1].(*ssa.If); ok {
		c := p.term(iff.Cond, mode).T
		if pr.Succs[0] == b && pr.Succs[1] == b {
			return r
		}
		if pr.Succs[0] != b {
			c = "(not " + c + ")"
		}
		if r == "true" {
			return c
		}
		return fmt.Sprintf("(and %s %s)", r, c)
	}
	return r
}

func (p *Pure) term(v ssa.Value, mode int) Val {
	k := pureKey{v, mode}
	if r, ok := p.memo[k]; ok {
		return r
	}
	if p.busy == nil {
		p.busy = map[pureKey]bool{}
	}
	if p.busy[k] {
		p.env.errorf("loop in pure function %s (loop-carried value %s)", p.fn.String(), v.Name())
		return p.env.freshVal("cyc", v.Type())
	}
	p.busy[k] = true
	defer delete(p.busy, k)
	r := p.term0(v, mode)
	if r.T != "" && r.Loc == nil && r.Tup == nil && r.Clo == nil {
		r.T = p.env.name("pv", r.S, r.T)
	}
	p.memo[k] = r
	return r
}

func (p *Pure) term0(v ssa.Value, mode int) Val {
	env := p.env
	if r, ok := env.valueOf(v); ok {
		return r
	}
	get := func(x ssa.Value) Val { return p.term(x, mode) }
	switch v := v.(type) {
	case *ssa.Parameter:
		for i, prm := range p.fn.Params {
			if prm == v {
				if i < len(p.args) {
					return p.args[i]
				}
			}
		}
		env.errorf("unbound parameter %s in %s", v.Name(), p.fn.String())
		return env.freshVal("param", v.Type())
	case *ssa.FreeVar:
		for i, f := range p.fn.FreeVars {
			if f == v && i < len(p.fv) {
				return p.fv[i]
			}
		}
		env.errorf("unbound free variable %s in %s", v.Name(), p.fn.String())
		return env.freshVal("fv", v.Type())
	case *ssa.Phi:
		b := v.Block()
		acc := p.term(v.Edges[len(v.Edges)-1], mode)
		for i := len(v.Edges) - 2; i >= 0; i-- {
			acc = env.ite(p.edge(b.Preds[i], b, mode), p.term(v.Edges[i], mode), acc)
		}
		return acc
	case *ssa.Alloc:
		// local variable cell in a pure function: allowed when written exactly once
		return Val{Loc: &Loc{Kind: LLocal, Heap: "pure-alloc", Typ: deref(v.Type())}, S: "Ref", T: ""}
	case *ssa.UnOp:
		if v.Op == token.MUL {
			if a, ok := v.X.(*ssa.Alloc); ok {
				return p.loadAlloc(a, mode)
			}
			// field of a locally allocated struct
			if fa, ok := v.X.(*ssa.FieldAddr); ok {
				if a, ok := fa.X.(*ssa.Alloc); ok {
					return p.loadAllocField(a, fa, mode)
				}
			}
		}
	case *ssa.Call:
		return p.call(v, mode)
	}
	if in, ok := v.(ssa.Instruction); ok {
		if r, ok := env.evalInstr(in, get, p.state(mode)); ok {
			return r
		}
	}
	env.errorf("unsupported in pure function %s: %s", p.fn.String(), v.String())
	return env.freshVal("unsup", v.Type())
}

func (p *Pure) loadAlloc(a *ssa.Alloc, mode int) Val {
	var st *ssa.Store
	n := 0
	for _, r := range *a.Referrers() {
		if s, ok := r.(*ssa.Store); ok && s.Addr == a {
			st = s
			n++
		}
	}
	if st, isS := isStruct(deref(a.Type())); isS && n == 0 {
		// struct local built field by field (composite literal): assemble the datatype value
		t := deref(a.Type())
		name := p.env.e.sortOf(t)
		if st.NumFields() == 0 {
			return Val{T: "mk_" + name, S: name}
		}
		var fs []string
		for i := 0; i < st.NumFields(); i++ {
			var store *ssa.Store
			cnt := 0
			for _, r := range *a.Referrers() {
				if fa, ok := r.(*ssa.FieldAddr); ok && fa.Field == i {
					for _, r2 := range *fa.Referrers() {
						if s2, ok := r2.(*ssa.Store); ok && s2.Addr == fa {
							store = s2
							cnt++
						}
					}
				}
			}
			switch {
			case cnt == 0:
				fs = append(fs, p.env.e.zeroValue(st.Field(i).Type()))
			case cnt == 1:
				v := p.term(store.Val, mode)
				if v.Loc != nil {
					v = p.env.materialize(v)
				}
				fs = append(fs, v.T)
			default:
				p.env.errorf("struct local field assigned more than once in pure function %s", p.fn.String())
				fs = append(fs, p.env.e.zeroValue(st.Field(i).Type()))
			}
		}
		return Val{T: fmt.Sprintf("(mk_%s %s)", name, strings.Join(fs, " ")), S: name}
	}
	if n == 0 {
		t := deref(a.Type())
		return Val{T: p.env.e.zeroValue(t), S: p.env.e.sortOf(t)}
	}
	if n != 1 {
		p.env.errorf("local variable assigned more than once in pure function %s (%s)", p.fn.String(), a.Comment)
		return p.env.freshVal("alloc", deref(a.Type()))
	}
	return p.term(st.Val, mode)
}

func (p *Pure) loadAllocField(a *ssa.Alloc, fa *ssa.FieldAddr, mode int) Val {
	// struct local: find the unique store to this field
	var st *ssa.Store
	n := 0
	for _, r := range *a.Referrers() {
		if f2, ok := r.(*ssa.FieldAddr); ok && f2.Field == fa.Field {
			for _, r2 := range *f2.Referrers() {
				if s, ok := r2.(*ssa.Store); ok && s.Addr == f2 {
					st = s
					n++
				}
			}
		}
	}
	ft := deref(fa.Type())
	if n == 0 {
		// the struct was stored as a whole (e.g. a struct parameter spilled to a local)
		var whole *ssa.Store
		wn := 0
		for _, r := range *a.Referrers() {
			if s2, ok := r.(*ssa.Store); ok && s2.Addr == a {
				whole = s2
				wn++
			}
		}
		if wn == 1 {
			v := p.term(whole.Val, mode)
			stT, _ := isStruct(deref(a.Type()))
			name := p.env.e.sortOf(deref(a.Type()))
			return Val{T: fmt.Sprintf("(%s.%s %s)", name, fieldName(stT.Field(fa.Field), fa.Field), v.T), S: p.env.e.sortOf(ft)}
		}
		if wn > 1 {
			p.env.errorf("struct local assigned more than once in pure function %s", p.fn.String())
			return p.env.freshVal("allocf", ft)
		}
		return Val{T: p.env.e.zeroValue(ft), S: p.env.e.sortOf(ft)}
	}
	if n != 1 {
		p.env.errorf("struct local field assigned more than once in pure function %s", p.fn.String())
		return p.env.freshVal("allocf", ft)
	}
	return p.term(st.Val, mode)
}

func (p *Pure) call(c *ssa.Call, mode int) Val {
	env := p.env
	com := c.Common()
	if com.IsInvoke() {
		env.errorf("interface method call in pure context: %s in %s", c.String(), p.fn.String())
		return env.freshVal("invoke", c.Type())
	}
	if b, ok := com.Value.(*ssa.Builtin); ok {
		return p.builtin(b.Name(), c, mode)
	}
	callee := com.StaticCallee()
	if callee == nil {
		env.errorf("dynamic call in pure context: %s in %s", c.String(), p.fn.String())
		return env.freshVal("dyn", c.Type())
	}
	if o := callee.Origin(); o != nil && o.Name() == "__vc_old" {
		return p.term(com.Args[0], modeOld)
	}
	if o := callee.Origin(); o != nil && o.Name() == "__vc_same" {
		// identity of representation (for Values: same dynamic type and payload, NaN equals NaN)
		x, y := p.term(com.Args[0], mode), p.term(com.Args[1], mode)
		if x.Loc != nil {
			x = p.env.materialize(x)
		}
		if y.Loc != nil {
			y = p.env.materialize(y)
		}
		return Val{T: fmt.Sprintf("(= %s %s)", x.T, y.T), S: "Bool"}
	}
	if o := callee.Origin(); o != nil && o.Name() == "__vc_sliceoff" {
		x, y := p.term(com.Args[0], mode), p.term(com.Args[1], mode)
		return Val{T: fmt.Sprintf("(- (s.off %s) (s.off %s))", x.T, y.T), S: "Int"}
	}
	if o := callee.Origin(); o != nil && o.Name() == "__vc_lastload" {
		x := p.term(com.Args[0], mode)
		if x.Loc != nil {
			x = p.env.materialize(x)
		}
		p.env.e.regHeap("lastload", "Ref")
		return Val{T: fmt.Sprintf("(= %s %s)", p.state(mode).get("lastload"), x.T), S: "Bool"}
	}
	if o := callee.Origin(); o != nil && o.Name() == "__vc_newarray" {
		x := p.term(com.Args[0], mode)
		old := p.cur
		if p.old != nil {
			old = p.old
		}
		return Val{T: fmt.Sprintf("(not (select %s (s.arr %s)))", old.get("allocA"), x.T), S: "Bool"}
	}
	if o := callee.Origin(); o != nil && o.Name() == "__vc_samearray" {
		x, y := p.term(com.Args[0], mode), p.term(com.Args[1], mode)
		return Val{T: fmt.Sprintf("(= (s.arr %s) (s.arr %s))", x.T, y.T), S: "Bool"}
	}
	if o := callee.Origin(); o != nil && o.Name() == "__vc_sameslice" {
		x, y := p.term(com.Args[0], mode), p.term(com.Args[1], mode)
		return Val{T: fmt.Sprintf("(= %s %s)", x.T, y.T), S: "Bool"}
	}
	var args []Val
	for _, a := range com.Args {
		args = append(args, p.term(a, mode))
	}
	full := callee.String()
	if r, ok := env.mathCall(full, args, c.Type()); ok {
		return r
	}
	return env.pureCall(callee, args, nil, p.state(mode), p.old, p.depth+1, c.Type())
}

// pureCall applies a pure function: uninterpreted, or inlined.
func (env *Env) pureCall(callee *ssa.Function, args []Val, fv []Val, cur, old *State, depth int, rt types.Type) Val {
	con := env.g.contracts[callee]
	if con != nil && con.Flags["uninterpreted"] {
		return env.ufCall(callee, args, rt)
	}
	if len(callee.Blocks) == 0 {
		env.e.note("external function abstracted as uninterpreted: " + callee.String())
		return env.ufCall(callee, args, rt)
	}
	isSpec := false
	if callee.Pkg != nil {
		if f := env.g.prog.Fset.File(callee.Pos()); f != nil && strings.Contains(f.Name(), "zz_verif_") {
			isSpec = true
		}
	}
	if !isSpec && (con == nil || !(con.Flags["pure"] || con.Flags["inline"])) {
		if !env.g.isReadOnly(callee, 0) {
			env.errorf("call to function not known to be pure: %s", callee.String())
			return env.freshVal("impure", rt)
		}
	}
	return env.evalPure(callee, args, fv, cur, old, depth)
}

func (env *Env) ufCall(callee *ssa.Function, args []Val, rt types.Type) Val {
	var sorts, ts []string
	for _, a := range args {
		if a.Loc != nil {
			a = env.materialize(a)
		}
		if a.Clo != nil {
			a = Val{T: env.closureTerm(a.Clo), S: "Fn"}
		}
		sorts = append(sorts, a.S)
		ts = append(ts, a.T)
	}
	rs := env.e.sortOf(rt)
	name := "uf_" + sanitize(callee.String())
	env.uf(name, sorts, rs)
	if len(ts) == 0 {
		return Val{T: name, S: rs}
	}
	t := fmt.Sprintf("(%s %s)", name, strings.Join(ts, " "))
	if !env.quant {
		env.fact(env.e.rangeAssume(t, rt))
	}
	return Val{T: t, S: rs}
}

func (p *Pure) builtin(name string, c *ssa.Call, mode int) Val {
	env := p.env
	args := c.Common().Args
	switch name {
	case "len", "cap":
		x := p.term(args[0], mode)
		return env.lenCap(name, x, args[0].Type())
	case "min", "max":
		acc := p.term(args[0], mode)
		for _, a := range args[1:] {
			y := p.term(a, mode)
			acc = env.minmax(name, acc, y, c.Type())
		}
		return acc
	}
	env.errorf("builtin %s in pure context", name)
	return env.freshVal("builtin", c.Type())
}

func (env *Env) minmax(name string, x, y Val, t types.Type) Val {
	if isFloat(t) {
		op := "fp.min"
		if name == "max" {
			op = "fp.max"
		}
		return Val{T: fmt.Sprintf("(ite (or (fp.isNaN %s) (fp.isNaN %s)) (_ NaN 11 53) (%s %s %s))", x.T, y.T, op, x.T, y.T), S: x.S}
	}
	op := "<="
	if name == "max" {
		op = ">="
	}
	return Val{T: fmt.Sprintf("(ite (%s %s %s) %s %s)", op, x.T, y.T, x.T, y.T), S: x.S}
}

func (env *Env) lenCap(name string, x Val, t types.Type) Val {
	switch u := t.Underlying().(type) {
	case *types.Slice:
		if name == "len" {
			return Val{T: "(s.len " + x.T + ")", S: "Int"}
		}
		return Val{T: "(s.cap " + x.T + ")", S: "Int"}
	case *types.Basic:
		return Val{T: "(str_len " + x.T + ")", S: "Int"}
	case *types.Array:
		return Val{T: fmt.Sprintf("%d", u.Len()), S: "Int"}
	case *types.Pointer:
		if a, ok := u.Elem().Underlying().(*types.Array); ok {
			return Val{T: fmt.Sprintf("%d", a.Len()), S: "Int"}
		}
	case *types.Map:
		f := env.uf("maplen", []string{"Ref"}, "Int")
		env.e.note("len(map) modelled as uninterpreted")
		return Val{T: fmt.Sprintf("(%s %s)", f, x.T), S: "Int"}
	}
	return env.freshVal("len", types.Typ[types.Int])
}

// isReadOnly: a conservative syntactic check that fn (and its static callees) perform no stores
// to the heap, no map updates, no dynamic calls.
func (g *Gen) isReadOnly(fn *ssa.Function, depth int) bool {
	if depth > 6 || len(fn.Blocks) == 0 {
		return false
	}
	for _, b := range fn.Blocks {
		for _, in := range b.Instrs {
			switch in := in.(type) {
			case *ssa.Store:
				if _, ok := in.Addr.(*ssa.Alloc); !ok {
					if fa, ok := in.Addr.(*ssa.FieldAddr); ok {
						if _, ok := fa.X.(*ssa.Alloc); ok {
							continue
						}
					}
					return false
				}
			case *ssa.MapUpdate, *ssa.Go, *ssa.Defer, *ssa.Send, *ssa.Select, *ssa.Panic:
				return false
			case *ssa.Call:
				com := in.Common()
				if com.IsInvoke() {
					return false
				}
				if _, ok := com.Value.(*ssa.Builtin); ok {
					n := com.Value.Name()
					if n == "len" || n == "cap" || n == "min" || n == "max" {
						continue
					}
					return false
				}
				cal := com.StaticCallee()
				if cal == nil {
					return false
				}
				if strings.HasPrefix(cal.String(), "math.") {
					continue
				}
				if c := g.contracts[cal]; c != nil && (c.Flags["pure"] || c.Flags["uninterpreted"]) {
					continue
				}
				if !g.isReadOnly(cal, depth+1) {
					return false
				}
			}
		}
	}
	return true
}
