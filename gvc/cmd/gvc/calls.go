package main

import (
	"fmt"
	"go/token"
	"go/types"
	"sort"
	"strings"

	"golang.org/x/tools/go/ssa"
)

// siteObligations: contract clauses attached to this call site.
func (ex *Exec) siteObligations(c *ssa.Call) {
	if ex.con == nil || len(ex.con.Sites) == 0 {
		return
	}
	com := c.Common()
	name := ""
	if com.IsInvoke() {
		name = com.Method.Name()
	} else if b, ok := com.Value.(*ssa.Builtin); ok {
		name = b.Name()
	} else if cal := com.StaticCallee(); cal != nil {
		name = cal.Name()
	}
	if name == "" {
		return
	}
	key := fmt.Sprintf("%s#%d", name, ex.callSiteOrdinal(c, name))
	for _, ss := range ex.con.Sites {
		if ss.Key != key {
			continue
		}
		m := map[string]Val{}
		for k, v := range ex.params {
			m[k] = v
		}
		// position of the call in its block
		b := c.Block()
		pos := 0
		for i, in := range b.Instrs {
			if in == ssa.Instruction(c) {
				pos = i
			}
		}
		for _, p := range ss.Vars {
			if strings.HasPrefix(p.Name, "arg") {
				var k int
				if _, err := fmt.Sscanf(p.Name, "arg%d", &k); err == nil {
					if a := ex.actualArg(c, k); a != nil {
						m[p.Name] = ex.get(a)
						continue
					}
				}
			}
			if v := ex.reachingDef(p.Name, b, pos); v != nil {
				m[p.Name] = ex.get(v)
			} else {
				ex.unsup("site %s: cannot resolve variable %s", key, p.Name)
			}
		}
		for i, cl := range ss.Requires {
			lbl := cl.Label
			if lbl == "" {
				lbl = fmt.Sprintf("%d", i+1)
			}
			t := ex.clauseTerm(cl, m, ex.st, ex.entry, true)
			ex.oblige("site", key+":"+lbl, t, c.Pos())
			ex.obligs[len(ex.obligs)-1].Clause = cl
		}
	}
}

// reachingDef: the SSA value a named source variable has just before instruction idx of block b.
func (ex *Exec) reachingDef(name string, b *ssa.BasicBlock, idx int) ssa.Value {
	for blk, start := b, idx-1; blk != nil; blk, start = blk.Idom(), -2 {
		k := start
		if k == -2 {
			k = len(blk.Instrs) - 1
		}
		for ; k >= 0; k-- {
			switch in := blk.Instrs[k].(type) {
			case *ssa.DebugRef:
				if id, ok := in.Expr.(interface{ String() string }); ok && !in.IsAddr && id.String() == name {
					return in.X
				}
			case *ssa.Phi:
				if in.Comment == name {
					return in
				}
			}
		}
	}
	for _, p := range ex.fn.Params {
		if p.Name() == name {
			return p
		}
	}
	return nil
}

func (ex *Exec) call(c *ssa.Call) {
	ex.siteObligations(c)
	if len(ex.unsupported) > 0 {
		return
	}
	com := c.Common()
	env := ex.env
	if b, ok := com.Value.(*ssa.Builtin); ok {
		ex.builtinCall(b.Name(), c)
		return
	}
	var args []Val
	if com.IsInvoke() {
		recv := ex.get(com.Value)
		ex.check("nil", fmt.Sprintf("(not (= %s nilbox))", recv.T), c.Pos(), ex.srcText(com.Value))
		args = append(args, recv)
	}
	for _, a := range com.Args {
		args = append(args, ex.get(a))
	}
	if com.IsInvoke() {
		key := ifaceKey(com.Value.Type(), com.Method)
		if cc := ex.g.ifaceContracts[key]; cc != nil {
			ex.applyContract(cc, c, args, cc.Func)
			return
		}
		ex.unknownCall(c, "interface method "+key)
		return
	}
	callee := com.StaticCallee()
	var fv []Val
	if callee == nil {
		v := ex.get(com.Value)
		if v.Clo != nil {
			callee = v.Clo.Fn.(*ssa.Function)
			fv = v.Clo.Bindings
		}
	} else if mc, ok := com.Value.(*ssa.MakeClosure); ok {
		fv = ex.get(mc).Clo.Bindings
	}
	if callee == nil {
		ex.unknownCall(c, "dynamic call")
		return
	}
	if r, ok := env.mathCall(callee.String(), args, c.Type()); ok {
		ex.setResult(c, r)
		return
	}
	if ex.specialCall(callee, c, args) {
		return
	}
	if ex.g.cs.Extern[callee.String()] {
		ex.e.note("assumed (extern): " + callee.String() + " modifies no modelled state")
		ex.setResult(c, ex.freshResult(c))
		return
	}
	cc := ex.g.contracts[callee]
	if cc != nil && (cc.Flags["pure"] || cc.Flags["inline"] || cc.Flags["uninterpreted"]) {
		r := env.pureCall(callee, args, fv, ex.st, ex.entry, 1, c.Type())
		ex.reportEnvErrs("call " + callee.String())
		ex.setResult(c, r)
		if !ex.g.createsInvValue(callee, 0) {
			// the function only passes existing values on: they satisfy their invariants
			ex.rely(ex.vals[c], c.Type())
		}
		return
	}
	if cc != nil {
		ex.applyContract(cc, c, args, callee.RelString(callee.Pkg.Pkg))
		return
	}
	if ic := ex.g.implOf[callee]; ic != nil && len(args) > 0 && callee != ex.fn {
		// a direct call of a method that implements a contracted interface method: use the
		// interface contract with self = the boxed receiver
		a2 := append([]Val{}, args...)
		recv := a2[0]
		if recv.Loc != nil {
			recv = env.materialize(recv)
		}
		box, _ := ex.e.boxFns(callee.Params[0].Type())
		a2[0] = Val{T: fmt.Sprintf("(%s %s)", box, recv.T), S: "Box"}
		ex.applyContract(ic, c, a2, ic.Func)
		return
	}
	if callee.Pkg != nil {
		if f := ex.g.prog.Fset.File(callee.Pos()); f != nil && strings.Contains(f.Name(), "zz_verif_") {
			r := env.pureCall(callee, args, fv, ex.st, ex.entry, 1, c.Type())
			ex.reportEnvErrs("call " + callee.String())
			ex.setResult(c, r)
			return
		}
	}
	ex.unknownCall(c, callee.String())
}

func (ex *Exec) reportEnvErrs(where string) {
	for _, er := range ex.env.errs {
		ex.unsup("%s: %s", where, er)
	}
	ex.env.errs = nil
}

func ifaceKey(t types.Type, m *types.Func) string {
	if n, ok := t.(*types.Named); ok && n.Obj().Pkg() != nil {
		return n.Obj().Pkg().Path() + "." + n.Obj().Name() + "." + m.Name()
	}
	return t.String() + "." + m.Name()
}

func (ex *Exec) setResult(c *ssa.Call, r Val) {
	if ex.con != nil && len(ex.con.Captures) > 0 {
		name := ""
		com := c.Common()
		if com.IsInvoke() {
			name = com.Method.Name()
		} else if cal := com.StaticCallee(); cal != nil {
			name = cal.Name()
		}
		if name != "" {
			if ex.callOrd == nil {
				ex.callOrd = map[string]int{}
			}
			if ex.captured == nil {
				ex.captured = map[string]Val{}
			}
			key := fmt.Sprintf("%s#%d", name, ex.callSiteOrdinal(c, name))
			for _, cp := range ex.con.Captures {
				if cp[1] == key {
					ex.captured[cp[0]] = r
				}
			}
		}
	}
	if c.Type() == nil {
		return
	}
	if tp, ok := c.Type().(*types.Tuple); ok && tp.Len() == 0 {
		return
	}
	if r.T != "" && r.Loc == nil && r.Tup == nil && r.Clo == nil && !isAtom(r.T) {
		r.T = ex.e.define("call_"+sanitize(c.Name()), r.S, r.T)
	}
	ex.vals[c] = r
}

// unknownCall: no contract, not modelled: anything may happen (jsEffect), result unconstrained.
func (ex *Exec) unknownCall(c *ssa.Call, what string) {
	ex.e.note("abstracted call (jsEffect, result unconstrained): " + what)
	ex.forkUnknownPanic(c.Pos())
	ex.st = ex.jsEffect(ex.st)
	ex.setResult(c, ex.freshResult(c))
}

func (ex *Exec) freshResult(c *ssa.Call) Val {
	r := ex.env.freshVal("res_"+sanitize(c.Name()), c.Type())
	ex.flushFacts()
	ex.allocFact(r, c.Type())
	ex.rely(r, c.Type())
	return r
}

func (ex *Exec) allocFact(r Val, t types.Type) {
	if r.Tup != nil {
		tp := t.(*types.Tuple)
		for i := range r.Tup {
			ex.allocFact(r.Tup[i], tp.At(i).Type())
		}
		return
	}
	if r.S == "Ref" && r.T != "" {
		ex.e.assume(fmt.Sprintf("(or (= %s nil) (select %s (rootref %s)))", r.T, ex.st.get("alloc"), r.T))
	}
}

// specialCall: modelled standard-library calls with effects.
func (ex *Exec) specialCall(callee *ssa.Function, c *ssa.Call, args []Val) bool {
	switch callee.String() {
	case "unicode/utf8.DecodeRuneInString", "unicode/utf8.DecodeRune":
		// assumed contract of the standard library: for a non-empty input the width is between 1
		// and len(s) (4 at most), the rune is a valid code point or RuneError
		r := ex.freshResult(c)
		ln := ex.lenOf(args[0], c.Common().Args[0].Type())
		if len(r.Tup) == 2 {
			ex.assumeHere(fmt.Sprintf("(and (=> (> %s 0) (and (<= 1 %s) (<= %s %s) (<= %s 4))) (=> (= %s 0) (= %s 0)) (<= 0 %s) (<= %s 1114111))", ln, r.Tup[1].T, r.Tup[1].T, ln, r.Tup[1].T, ln, r.Tup[1].T, r.Tup[0].T, r.Tup[0].T))
			// a code point above the BMP is encoded in four bytes, one above 0x7FF in at least three
			ex.assumeHere(fmt.Sprintf("(and (=> (> %s 65535) (= %s 4)) (=> (and (> %s 2047) (not (= %s 65533))) (>= %s 3)))", r.Tup[0].T, r.Tup[1].T, r.Tup[0].T, r.Tup[0].T, r.Tup[1].T))
			if callee.Name() == "DecodeRuneInString" {
				// an ASCII first byte decodes to itself with width 1; any other first byte to a rune >= 0x80
				b0 := fmt.Sprintf("(str_at %s 0)", args[0].T)
				ex.assumeHere(fmt.Sprintf("(=> (> %s 0) (ite (< %s 128) (and (= %s %s) (= %s 1)) (>= %s 128)))", ln, b0, r.Tup[0].T, b0, r.Tup[1].T, r.Tup[0].T))
			}
		}
		ex.e.note("assumed contract: utf8.DecodeRuneInString returns 1 <= width <= len(s) for non-empty s")
		ex.vals[c] = r
		return true
	case "unicode.IsSpace", "unicode.IsDigit", "unicode.IsLetter", "unicode.Is", "unicode.IsUpper", "unicode.IsLower":
		ex.setResult(c, ex.env.ufCall(callee, args, c.Type()))
		return true
	case "(*sync.Mutex).Lock", "(*sync.Mutex).Unlock", "(*sync.RWMutex).Lock", "(*sync.RWMutex).Unlock":
		// ghost lock state: which mutexes this activation holds
		ex.e.regHeap("lockheld", "(Array Ref Bool)")
		m := args[0]
		if m.Loc != nil {
			m = ex.env.materialize(m)
		}
		held := "true"
		if strings.HasSuffix(callee.String(), "Unlock") {
			held = "false"
			ex.oblige("lock", "unlock-of-held-mutex:"+ex.srcText(c.Common().Args[0]), fmt.Sprintf("(select %s %s)", ex.st.get("lockheld"), m.T), c.Pos())
		} else {
			ex.oblige("lock", "no-double-lock:"+ex.srcText(c.Common().Args[0]), fmt.Sprintf("(not (select %s %s))", ex.st.get("lockheld"), m.T), c.Pos())
		}
		ex.st.set("lockheld", fmt.Sprintf("(store %s %s %s)", ex.st.get("lockheld"), m.T, held))
		return true
	case "sync/atomic.LoadUint32", "sync/atomic.LoadInt32", "sync/atomic.LoadUint64", "sync/atomic.LoadInt64":
		ex.setResult(c, ex.env.loadVal(ex.st, args[0], c.Type()))
		// ghost: remember which location was polled last
		ex.e.regHeap("lastload", "Ref")
		ex.st.set("lastload", ex.env.materialize(args[0]).T)
		return true
	case "sync/atomic.StoreUint32", "sync/atomic.StoreInt32", "sync/atomic.StoreUint64", "sync/atomic.StoreInt64":
		if args[0].Loc != nil {
			ex.e.store(ex.st, args[0].Loc, args[1].T)
		} else {
			h := ex.e.cellHeap(c.Common().Args[1].Type())
			ex.st.set(h, fmt.Sprintf("(store %s %s %s)", ex.st.get(h), args[0].T, args[1].T))
		}
		return true
	}
	return false
}

// argMap binds a callee contract's parameter names to actual arguments.
func argMap(cc *Contract, args []Val) map[string]Val {
	m := map[string]Val{}
	for i, p := range cc.Params {
		if i < len(args) {
			m[p.Name] = args[i]
		}
	}
	return m
}

func (ex *Exec) applyContract(cc *Contract, c *ssa.Call, args []Val, calleeName string) {
	e := ex.e
	ex.callN[calleeName]++
	site := fmt.Sprintf("%s#%d", calleeName, ex.callN[calleeName])
	if len(cc.Errors) > 0 {
		ex.unsup("callee contract %s has errors: %s", calleeName, strings.Join(cc.Errors, "; "))
		return
	}
	m := argMap(cc, args)
	pre := ex.st
	for i, cl := range cc.Requires {
		lbl := cl.Label
		if lbl == "" {
			lbl = fmt.Sprintf("%d", i+1)
		}
		t := ex.clauseTerm(cl, m, pre, pre, true)
		ex.oblige("pre", site+":"+lbl, t, c.Pos())
		ex.obligs[len(ex.obligs)-1].Clause = cl
		ex.obligs[len(ex.obligs)-1].Callee = calleeName
	}
	ex.forkContractPanic(cc, m, pre, c.Pos())
	// frame
	post := ex.havocAssigns(cc, m, pre)
	ex.st = post
	res := ex.freshResult(c)
	if len(cc.Results) == 1 {
		m[cc.Results[0].Name] = res
	} else {
		for i, r := range cc.Results {
			if i < len(res.Tup) {
				m[r.Name] = res.Tup[i]
			}
		}
	}
	for _, cl := range cc.Ensures {
		// ghost/capture parameters of the callee are internal to it: unknown here
		ex.fillGhosts(cc, cl, m)
		t := ex.clauseTerm(cl, m, post, pre, false)
		if lit := trivialBool(ex.e, t); lit == "false" || strings.TrimSpace(t) == "(not true)" {
			// with these arguments the callee's contract says it does not return: what follows in
			// this block is dead code, not a contradiction
			if ex.deadBlocks == nil {
				ex.deadBlocks = map[*ssa.BasicBlock]bool{}
			}
			ex.deadBlocks[ex.curBlock] = true
		}
		ex.assumeHere(t)
	}
	ex.setResult(c, res)
	_ = e
}

// desigTarget evaluates an assigns designator to the value its clause function returns.
func (ex *Exec) desigTarget(cl *Clause, m map[string]Val, st *State) (Val, types.Type, bool) {
	if cl.Fn == nil {
		return Val{}, nil, false
	}
	// the clause function is `return <expr>` boxed into interface{}: evaluate the operand of MakeInterface
	var ret *ssa.Return
	for _, b := range cl.Fn.Blocks {
		if r, ok := b.Instrs[len(b.Instrs)-1].(*ssa.Return); ok {
			ret = r
		}
	}
	if ret == nil || len(cl.Fn.Blocks) != 1 {
		ex.unsup("assigns designator too complex: %s", cl.Text)
		return Val{}, nil, false
	}
	mi, ok := ret.Results[0].(*ssa.MakeInterface)
	if !ok {
		ex.unsup("assigns designator: unexpected shape: %s", cl.Text)
		return Val{}, nil, false
	}
	var av []Val
	for _, nm := range cl.Names {
		v, ok := m[nm]
		if !ok {
			ex.unsup("assigns %q: no value for %s", cl.Text, nm)
			return Val{}, nil, false
		}
		av = append(av, v)
	}
	p := &Pure{env: ex.env, fn: cl.Fn, args: av, cur: st, old: st, memo: map[pureKey]Val{}, reachB: map[[2]int]string{}}
	v := p.term(mi.X, modeCur)
	ex.flushFacts()
	ex.reportEnvErrs("assigns " + cl.Text)
	return v, mi.X.Type(), true
}

// havocAssigns returns the state after an arbitrary execution respecting cc's assigns clause.
func (ex *Exec) havocAssigns(cc *Contract, m map[string]Val, pre *State) *State {
	e := ex.e
	if len(cc.Assigns) == 0 {
		// no frame given: anything. Only a callee declared "script" (it runs script and nothing
		// else touches the VM registers) gets the benefit of the jspreserved assumption.
		if cc.Flags["script"] {
			return ex.jsEffect(pre)
		}
		return ex.jsEffect3(pre, false, true)
	}
	for _, cl := range cc.Assigns {
		if cl.Desig == "all" {
			return ex.jsEffect3(pre, ex.abruptFrame, true)
		}
	}
	for _, cl := range cc.Assigns {
		if cl.Desig == "nothing-if" {
			cond := ex.clauseTerm(cl, m, pre, pre, true)
			cond = e.define("framecond", "Bool", cond)
			same := pre.clone()
			var any *State
			isScript := false
			for _, c2 := range cc.Assigns {
				if c2.Desig == "script" {
					isScript = true
				}
			}
			var rest []*Clause
			for _, c2 := range cc.Assigns {
				if c2.Desig != "nothing-if" {
					rest = append(rest, c2)
				}
			}
			switch {
			case len(rest) > 0 && !(len(rest) == 1 && isScript):
				// "nothing if C" together with designators: when C does not hold, the designators apply
				cc2 := *cc
				cc2.Assigns = rest
				any = ex.havocAssigns(&cc2, m, pre)
			case isScript:
				any = ex.jsEffect2(pre, ex.abruptFrame)
			default:
				any = ex.jsEffect3(pre, ex.abruptFrame, true)
			}
			return mergeStates(e, []string{cond, "(not " + cond + ")"}, []*State{same, any})
		}
	}
	post := pre.clone()
	for _, cl := range cc.Assigns {
		if cl.Desig == "script" {
			post = ex.jsEffect2(pre, ex.abruptFrame)
		}
	}
	for _, cl := range cc.Assigns {
		if cl.AbruptOnly && !ex.abruptFrame {
			continue
		}
		switch cl.Desig {
		case "nothing", "script":
		case "any":
			sp := ex.g.pkgs[cc.PkgDir]
			h, err := ex.g.lookupField(e, sp, cl.AnyT, cl.AnyF)
			if err != nil {
				ex.unsup("assigns %s: %v", cl.Text, err)
				continue
			}
			post.havoc(h)
		case "lvalue":
			v, t, ok := ex.desigTarget(cl, m, pre)
			if !ok {
				continue
			}
			et := deref(t)
			if v.Loc != nil {
				ex.havocLoc(post, v.Loc)
			} else if _, isS := isStruct(et); isS {
				ex.havocStruct(post, et, v.T)
			} else {
				h := e.cellHeap(et)
				post.set(h, fmt.Sprintf("(store %s %s %s)", post.get(h), v.T, e.freshConst("hv", e.sortOf(et))))
			}
		case "fields":
			v, t, ok := ex.desigTarget(cl, m, pre)
			if !ok {
				continue
			}
			if v.Loc != nil {
				v = ex.env.materialize(v)
			}
			ex.havocStruct(post, deref(t), v.T)
		case "elems":
			v, t, ok := ex.desigTarget(cl, m, pre)
			if !ok {
				continue
			}
			st, isSl := t.Underlying().(*types.Slice)
			if !isSl {
				ex.unsup("assigns elems(): not a slice: %s", cl.Text)
				continue
			}
			arr := fmt.Sprintf("(s.arr %s)", v.T)
			if _, isS := isStruct(st.Elem()); isS {
				hs := map[string]bool{}
				e.structHeaps(st.Elem(), hs)
				for _, h := range sortedKeys(hs) {
					nh := e.freshConst(h, e.hsort[h])
					e.assume(fmt.Sprintf("(forall ((r Ref)) (! (=> (not (and ((_ is elemref) r) (= (elemref_arr r) %s))) (= (select %s r) (select %s r))) :pattern ((select %s r))))", arr, nh, post.get(h), nh))
					post.heap[h] = nh
				}
			} else {
				h := e.elemHeap(st.Elem())
				post.set(h, fmt.Sprintf("(store %s %s %s)", post.get(h), arr, e.freshConst("hvarr", "(Array Int "+e.sortOf(st.Elem())+")")))
			}
		}
	}
	return post
}

func sortedKeys(m map[string]bool) []string {
	var ks []string
	for k := range m {
		ks = append(ks, k)
	}
	sort.Strings(ks)
	return ks
}

func (ex *Exec) havocLoc(st *State, l *Loc) {
	e := ex.e
	s := e.sortOf(l.Typ)
	e.store(st, l, e.freshConst("hv", s))
}

func (ex *Exec) havocStruct(st *State, t types.Type, r string) {
	e := ex.e
	s, _ := isStruct(t)
	for i := 0; i < s.NumFields(); i++ {
		ft := s.Field(i).Type()
		if _, ok := isStruct(ft); ok {
			ex.havocStruct(st, ft, e.subRef(t, i, r))
			continue
		}
		h, _ := e.fieldHeap(t, i)
		st.set(h, fmt.Sprintf("(store %s %s %s)", st.get(h), r, e.freshConst("hv", e.sortOf(ft))))
	}
}

// ---- builtins

func (ex *Exec) builtinCall(name string, c *ssa.Call) {
	e := ex.e
	env := ex.env
	args := c.Common().Args
	switch name {
	case "len", "cap":
		ex.setResult(c, env.lenCap(name, ex.get(args[0]), args[0].Type()))
	case "min", "max":
		acc := ex.get(args[0])
		for _, a := range args[1:] {
			acc = env.minmax(name, acc, ex.get(a), c.Type())
		}
		ex.setResult(c, acc)
	case "append":
		ex.doAppend(c)
	case "copy":
		ex.doCopy(c)
	case "delete":
		m := ex.get(args[0])
		k := ex.get(args[1])
		mt := args[0].Type().Underlying().(*types.Map)
		dom, _ := e.mapHeaps(mt)
		ex.st.set(dom, fmt.Sprintf("(store %s %s (store (select %s %s) %s false))", ex.st.get(dom), m.T, ex.st.get(dom), m.T, k.T))
	case "recover":
		if ex.inl != nil {
			if ex.inl.rec != nil {
				ex.setResult(c, *ex.inl.rec)
			} else {
				ex.setResult(c, Val{T: "nilbox", S: "Box"})
			}
			return
		}
		if v, ok := ex.params["recovered"]; ok {
			ex.setResult(c, v)
			return
		}
		ex.setResult(c, Val{T: "nilbox", S: "Box"})
		e.note("recover() outside a deferred function modelled as nil")
	case "print", "println":
	default:
		ex.unsup("builtin %s is not supported", name)
	}
}

// elemComponents describes where the elements of a slice with element type et live.
type elemComp struct {
	heap string
	get  func(h, arr, idx string) string // element term in heap version h
	sort string
}

func (ex *Exec) elemComps(et types.Type) ([]elemComp, bool) {
	e := ex.e
	if s, ok := isStruct(et); ok {
		var out []elemComp
		for i := 0; i < s.NumFields(); i++ {
			ft := s.Field(i).Type()
			if _, nested := isStruct(ft); nested {
				return nil, false
			}
			h, _ := e.fieldHeap(et, i)
			out = append(out, elemComp{heap: h, sort: e.sortOf(ft), get: func(h, arr, idx string) string {
				return fmt.Sprintf("(select %s (elemref %s %s))", h, arr, idx)
			}})
		}
		return out, true
	}
	h := e.elemHeap(et)
	return []elemComp{{heap: h, sort: e.sortOf(et), get: func(h, arr, idx string) string {
		return fmt.Sprintf("(select (select %s %s) %s)", h, arr, idx)
	}}}, true
}

// doCopy: copy(dst, src) has memmove semantics on min(len) elements.
func (ex *Exec) doCopy(c *ssa.Call) {
	e := ex.e
	args := c.Common().Args
	d := ex.get(args[0])
	s := ex.get(args[1])
	dt := args[0].Type().Underlying().(*types.Slice)
	n := e.define("copyn", "Int", fmt.Sprintf("(ite (<= (s.len %s) %s) (s.len %s) %s)", d.T, ex.lenOf(s, args[1].Type()), d.T, ex.lenOf(s, args[1].Type())))
	ex.setResult(c, Val{T: n, S: "Int"})
	if isString(args[1].Type()) {
		h := e.elemHeap(dt.Elem())
		oh := ex.st.get(h)
		nh := e.freshConst(h, e.hsort[h])
		e.assume(fmt.Sprintf("(forall ((a ArrRef) (i Int)) (! (= (select (select %s a) i) (ite (and (= a (s.arr %s)) (<= (s.off %s) i) (< i (+ (s.off %s) %s))) (str_at %s (- i (s.off %s))) (select (select %s a) i))) :pattern ((select (select %s a) i))))", nh, d.T, d.T, d.T, n, s.T, d.T, oh, nh))
		ex.st.heap[h] = nh
		return
	}
	comps, ok := ex.elemComps(dt.Elem())
	if !ok {
		e.note("copy of slices of nested structs: abstracted")
		ex.st = ex.jsEffect(ex.st)
		return
	}
	for _, cp := range comps {
		oh := ex.st.get(cp.heap)
		nh := e.freshConst(cp.heap, e.hsort[cp.heap])
		if strings.HasPrefix(cp.heap, "E_") {
			e.assume(fmt.Sprintf("(forall ((a ArrRef) (i Int)) (! (= (select (select %s a) i) (ite (and (= a (s.arr %s)) (<= (s.off %s) i) (< i (+ (s.off %s) %s))) (select (select %s (s.arr %s)) (+ (s.off %s) (- i (s.off %s)))) (select (select %s a) i))) :pattern ((select (select %s a) i))))",
				nh, d.T, d.T, d.T, n, oh, s.T, s.T, d.T, oh, nh))
		} else {
			e.assume(fmt.Sprintf("(forall ((r Ref)) (! (= (select %s r) (ite (and ((_ is elemref) r) (= (elemref_arr r) (s.arr %s)) (<= (s.off %s) (elemref_idx r)) (< (elemref_idx r) (+ (s.off %s) %s))) (select %s (elemref (s.arr %s) (+ (s.off %s) (- (elemref_idx r) (s.off %s))))) (select %s r))) :pattern ((select %s r))))",
				nh, d.T, d.T, d.T, n, oh, s.T, s.T, d.T, oh, nh))
		}
		ex.st.heap[cp.heap] = nh
	}
}

func (ex *Exec) lenOf(v Val, t types.Type) string {
	if isString(t) {
		return fmt.Sprintf("(str_len %s)", v.T)
	}
	return fmt.Sprintf("(s.len %s)", v.T)
}

// doAppend: append(s, t...) writes in place when capacity suffices, else into a fresh array.
func (ex *Exec) doAppend(c *ssa.Call) {
	e := ex.e
	args := c.Common().Args
	s := ex.get(args[0])
	t := ex.get(args[1])
	st := args[0].Type().Underlying().(*types.Slice)
	n := fmt.Sprintf("(s.len %s)", s.T)
	m := ex.lenOf(t, args[1].Type())
	fits := e.define("appfits", "Bool", fmt.Sprintf("(<= (+ %s %s) (s.cap %s))", n, m, s.T))
	na := ex.newArr("app")
	ncap := e.freshConst("appcap", "Int")
	e.assume(fmt.Sprintf("(>= %s (+ %s %s))", ncap, n, m))
	res := e.define("append", "Slice", fmt.Sprintf("(ite %s (mk-slice (s.arr %s) (s.off %s) (+ %s %s) (s.cap %s)) (mk-slice %s 0 (+ %s %s) %s))", fits, s.T, s.T, n, m, s.T, na, n, m, ncap))
	ex.setResult(c, Val{T: res, S: "Slice"})
	if isString(args[1].Type()) {
		e.note("append(bytes, string...): contents abstracted")
		h := e.elemHeap(st.Elem())
		ex.st.havoc(h)
		return
	}
	comps, ok := ex.elemComps(st.Elem())
	if !ok {
		e.note("append on slices of nested structs: abstracted")
		ex.st = ex.jsEffect(ex.st)
		return
	}
	for _, cp := range comps {
		oh := ex.st.get(cp.heap)
		nh := e.freshConst(cp.heap, e.hsort[cp.heap])
		// element (a,i) of the new heap
		src := func(i string) string { // appended element number i-n of t
			return cp.get(oh, fmt.Sprintf("(s.arr %s)", t.T), fmt.Sprintf("(+ (s.off %s) (- %s %s))", t.T, i, n))
		}
		if strings.HasPrefix(cp.heap, "E_") {
			inplace := fmt.Sprintf("(ite (and (= a (s.arr %s)) (<= (+ (s.off %s) %s) i) (< i (+ (s.off %s) %s %s))) %s (select (select %s a) i))", s.T, s.T, n, s.T, n, m, src(fmt.Sprintf("(- i (s.off %s))", s.T)), oh)
			realloc := fmt.Sprintf("(ite (= a %s) (ite (and (<= 0 i) (< i %s)) (select (select %s (s.arr %s)) (+ (s.off %s) i)) (ite (and (<= %s i) (< i (+ %s %s))) %s (select (select %s a) i))) (select (select %s a) i))", na, n, oh, s.T, s.T, n, n, m, src("i"), nh, oh)
			e.assume(fmt.Sprintf("(forall ((a ArrRef) (i Int)) (! (= (select (select %s a) i) (ite %s %s %s)) :pattern ((select (select %s a) i))))", nh, fits, inplace, realloc, nh))
		} else {
			ai, ii := "(elemref_arr r)", "(elemref_idx r)"
			isElem := "((_ is elemref) r)"
			inplace := fmt.Sprintf("(ite (and %s (= %s (s.arr %s)) (<= (+ (s.off %s) %s) %s) (< %s (+ (s.off %s) %s %s))) %s (select %s r))", isElem, ai, s.T, s.T, n, ii, ii, s.T, n, m, src(fmt.Sprintf("(- %s (s.off %s))", ii, s.T)), oh)
			realloc := fmt.Sprintf("(ite (and %s (= %s %s)) (ite (and (<= 0 %s) (< %s %s)) (select %s (elemref (s.arr %s) (+ (s.off %s) %s))) (ite (and (<= %s %s) (< %s (+ %s %s))) %s (select %s r))) (select %s r))", isElem, ai, na, ii, ii, n, oh, s.T, s.T, ii, n, ii, ii, n, m, src(ii), nh, oh)
			e.assume(fmt.Sprintf("(forall ((r Ref)) (! (= (select %s r) (ite %s %s %s)) :pattern ((select %s r))))", nh, fits, inplace, realloc, nh))
		}
		ex.st.heap[cp.heap] = nh
	}
}

// ---- modified-variable analysis (loops, frame)

func (ex *Exec) staticHeapVars(addr ssa.Value, out map[string]bool, seen map[ssa.Value]bool) {
	e := ex.e
	if seen[addr] {
		return
	}
	seen[addr] = true
	switch a := addr.(type) {
	case *ssa.FieldAddr:
		if root := localStructRoot(a); root != nil {
			out[ex.locals[root]] = true
			return
		}
		st := deref(a.X.Type())
		s, _ := isStruct(st)
		ft := s.Field(a.Field).Type()
		if _, ok := isStruct(ft); ok {
			e.structHeaps(ft, out)
		} else {
			h, _ := e.fieldHeap(st, a.Field)
			out[h] = true
		}
		return
	case *ssa.IndexAddr:
		switch xt := a.X.Type().Underlying().(type) {
		case *types.Slice:
			if _, ok := isStruct(xt.Elem()); ok {
				e.structHeaps(xt.Elem(), out)
			} else {
				out[e.elemHeap(xt.Elem())] = true
			}
		case *types.Pointer:
			at := xt.Elem().Underlying().(*types.Array)
			if al, ok := a.X.(*ssa.Alloc); ok {
				_ = al
				if _, ok := isStruct(at.Elem()); ok {
					e.structHeaps(at.Elem(), out)
				} else {
					out[e.elemHeap(at.Elem())] = true
				}
				return
			}
			ex.staticHeapVars(a.X, out, seen)
		}
		return
	case *ssa.Alloc:
		t := deref(a.Type())
		if _, ok := isStruct(t); ok && !a.Heap {
			out[ex.locals[a]] = true
		} else if _, ok := isStruct(t); ok {
			e.structHeaps(t, out)
		} else if at, ok := t.Underlying().(*types.Array); ok {
			if _, ok := isStruct(at.Elem()); ok {
				e.structHeaps(at.Elem(), out)
			} else {
				out[e.elemHeap(at.Elem())] = true
			}
		} else {
			out[ex.locals[a]] = true
		}
		return
	case *ssa.Global:
		out["G_"+sanitize(a.Pkg.Pkg.Name()+"."+a.Name())] = true
		return
	case *ssa.Phi:
		for _, ed := range a.Edges {
			ex.staticHeapVars(ed, out, seen)
		}
		return
	case *ssa.ChangeType:
		ex.staticHeapVars(a.X, out, seen)
		return
	case *ssa.Convert:
		ex.staticHeapVars(a.X, out, seen)
		return
	}
	t := deref(addr.Type())
	if _, ok := isStruct(t); ok {
		e.structHeaps(t, out)
	} else {
		out[e.cellHeap(t)] = true
	}
}

// calleeModVars: heap variables a contracted callee may modify (static over-approximation).
func (ex *Exec) calleeModVars(cc *Contract, call *ssa.Call, out map[string]bool) (all bool) {
	e := ex.e
	if len(cc.Assigns) == 0 {
		return true
	}
	out["alloc"] = true
	out["allocA"] = true
	for _, cl := range cc.Assigns {
		switch cl.Desig {
		case "all", "nothing-if":
			return true
		case "nothing":
		case "any":
			h, err := ex.g.lookupField(e, ex.g.pkgs[cc.PkgDir], cl.AnyT, cl.AnyF)
			if err == nil {
				out[h] = true
			}
		default:
			if cl.Fn == nil || len(cl.Fn.Blocks) != 1 {
				return true
			}
			ret := cl.Fn.Blocks[0].Instrs[len(cl.Fn.Blocks[0].Instrs)-1].(*ssa.Return)
			mi, ok := ret.Results[0].(*ssa.MakeInterface)
			if !ok {
				return true
			}
			x := mi.X
			// a parameter returned directly: look at the actual argument
			if p, ok := x.(*ssa.Parameter); ok {
				for i, pp := range cl.Fn.Params {
					if pp == p {
						actual := ex.actualArg(call, i)
						if actual == nil {
							return true
						}
						x = actual
					}
				}
			}
			switch cl.Desig {
			case "lvalue":
				ex.staticHeapVars(x, out, map[ssa.Value]bool{})
			case "fields":
				e.structHeaps(deref(x.Type()), out)
			case "elems":
				st, ok := x.Type().Underlying().(*types.Slice)
				if !ok {
					return true
				}
				if _, isS := isStruct(st.Elem()); isS {
					e.structHeaps(st.Elem(), out)
				} else {
					out[e.elemHeap(st.Elem())] = true
				}
			}
		}
	}
	return false
}

func (ex *Exec) actualArg(call *ssa.Call, i int) ssa.Value {
	com := call.Common()
	if com.IsInvoke() {
		if i == 0 {
			return com.Value
		}
		i--
	}
	if i < len(com.Args) {
		return com.Args[i]
	}
	return nil
}

func (ex *Exec) modSet(blocks map[*ssa.BasicBlock]bool) (map[string]bool, bool) {
	out := map[string]bool{}
	all := false
	e := ex.e
	for _, b := range ex.fn.Blocks {
		if blocks != nil && !blocks[b] {
			continue
		}
		for _, in := range b.Instrs {
			switch in := in.(type) {
			case *ssa.Store:
				ex.staticHeapVars(in.Addr, out, map[ssa.Value]bool{})
			case *ssa.Alloc:
				t := deref(in.Type())
				if _, ok := isStruct(t); ok && !in.Heap {
					out[ex.locals[in]] = true
				} else if _, ok := isStruct(t); ok {
					e.structHeaps(t, out)
					out["alloc"] = true
				} else if at, ok := t.Underlying().(*types.Array); ok {
					out["allocA"] = true
					if _, ok := isStruct(at.Elem()); !ok {
						out[e.elemHeap(at.Elem())] = true
					}
				} else {
					out[ex.locals[in]] = true
				}
			case *ssa.MapUpdate:
				d, v := e.mapHeaps(in.Map.Type().Underlying().(*types.Map))
				out[d], out[v] = true, true
			case *ssa.MakeSlice:
				out["allocA"] = true
				et := in.Type().Underlying().(*types.Slice).Elem()
				if _, ok := isStruct(et); ok {
					e.structHeaps(et, out)
				} else {
					out[e.elemHeap(et)] = true
				}
			case *ssa.MakeMap:
				out["alloc"] = true
				d, _ := e.mapHeaps(in.Type().Underlying().(*types.Map))
				out[d] = true
			case *ssa.Call:
				com := in.Common()
				if bi, ok := com.Value.(*ssa.Builtin); ok {
					switch bi.Name() {
					case "append", "copy":
						out["allocA"] = true
						et := com.Args[0].Type().Underlying().(*types.Slice).Elem()
						if _, ok := isStruct(et); ok {
							e.structHeaps(et, out)
						} else {
							out[e.elemHeap(et)] = true
						}
					case "delete":
						d, _ := e.mapHeaps(com.Args[0].Type().Underlying().(*types.Map))
						out[d] = true
					}
					continue
				}
				if com.IsInvoke() {
					if cc := ex.g.ifaceContracts[ifaceKey(com.Value.Type(), com.Method)]; cc != nil {
						if ex.calleeModVars(cc, in, out) {
							all = true
						}
						continue
					}
					all = true
					continue
				}
				callee := com.StaticCallee()
				if callee == nil {
					all = true
					continue
				}
				if _, ok := ex.env.mathCallName(callee.String()); ok {
					continue
				}
				switch callee.String() {
				case "unicode/utf8.DecodeRuneInString", "unicode/utf8.DecodeRune", "unicode.IsSpace", "unicode.IsDigit", "unicode.IsLetter", "unicode.Is", "unicode.IsUpper", "unicode.IsLower", "(*sync.Mutex).Lock", "(*sync.Mutex).Unlock":
					continue
				case "sync/atomic.LoadUint32", "sync/atomic.LoadInt32", "sync/atomic.LoadUint64", "sync/atomic.LoadInt64":
					continue
				case "sync/atomic.StoreUint32", "sync/atomic.StoreInt32", "sync/atomic.StoreUint64", "sync/atomic.StoreInt64":
					ex.staticHeapVars(com.Args[0], out, map[ssa.Value]bool{})
					continue
				}
				if ex.g.cs.Extern[callee.String()] {
					continue
				}
				cc := ex.g.contracts[callee]
				if cc != nil && (cc.Flags["pure"] || cc.Flags["inline"] || cc.Flags["uninterpreted"]) {
					continue
				}
				if cc != nil {
					if ex.calleeModVars(cc, in, out) {
						all = true
					}
					continue
				}
				if f := ex.g.prog.Fset.File(callee.Pos()); f != nil && strings.Contains(f.Name(), "zz_verif_") {
					continue
				}
				all = true
			}
		}
	}
	return out, all
}

func (env *Env) mathCallName(name string) (string, bool) {
	switch name {
	case "math.Trunc", "math.Floor", "math.Ceil", "math.RoundToEven", "math.Round", "math.Abs", "math.IsNaN", "math.NaN", "math.Sqrt", "math.Inf", "math.IsInf", "math.Signbit", "math.Copysign", "math.Max", "math.Min", "math.Float64bits", "math.Float64frombits", "math.Mod", "math.Pow", "math.Log", "math.Exp", "math.Sin", "math.Cos", "math.Atan2", "math.Hypot", "math.Cbrt", "math.Log2", "math.Log10", "math.Log1p", "math.Expm1", "math.Tan", "math.Asin", "math.Acos", "math.Atan", "math.Sinh", "math.Cosh", "math.Tanh", "math.Asinh", "math.Acosh", "math.Atanh":
		return name, true
	}
	return "", false
}

// frameCover: what the function's assigns clause allows, per heap variable (designators are
// evaluated in the entry state).
type frameCov struct {
	whole bool
	refs  []string // Ref terms (field of specific object)
	arrs  []string // ArrRef terms (elems)
	elems [][2]string
}

type frameInfo struct {
	cov         map[string]*frameCov
	scriptFrame bool
	ncond       string // "nothing if C": C (defined name), "" if none
	ncondRaw    string
	skip        bool // no frame to check (no assigns / all / plain nothing-if)
}

func (ex *Exec) frameCover() *frameInfo {
	if ex.frameMemo == nil {
		ex.frameMemo = map[bool]*frameInfo{}
	}
	if fi := ex.frameMemo[ex.abruptExit]; fi != nil {
		return fi
	}
	fi := &frameInfo{cov: map[string]*frameCov{}}
	ex.frameMemo[ex.abruptExit] = fi
	cc := ex.con
	if cc == nil || len(cc.Assigns) == 0 {
		fi.skip = true
		return fi
	}
	for _, cl := range cc.Assigns {
		if cl.Desig == "all" {
			fi.skip = true
			return fi
		}
	}
	e := ex.e
	for _, cl := range cc.Assigns {
		if cl.Desig == "nothing-if" {
			cond := ex.clauseTerm(cl, ex.params, ex.entry, ex.entry, true)
			fi.ncondRaw = cond
			nrest := 0
			for _, c2 := range cc.Assigns {
				if c2.Desig != "nothing-if" && c2.Desig != "script" {
					nrest++
				}
			}
			if nrest == 0 {
				fi.skip = true
				return fi
			}
			fi.ncond = e.define("framecond", "Bool", cond)
		}
		if cl.Desig == "script" {
			fi.scriptFrame = true
		}
	}
	get := func(h string) *frameCov {
		if fi.cov[h] == nil {
			fi.cov[h] = &frameCov{}
		}
		return fi.cov[h]
	}
	for _, cl := range cc.Assigns {
		if cl.AbruptOnly && !ex.abruptExit {
			continue
		}
		switch cl.Desig {
		case "any":
			h, err := ex.g.lookupField(e, ex.g.pkgs[cc.PkgDir], cl.AnyT, cl.AnyF)
			if err == nil {
				get(h).whole = true
			}
		case "lvalue":
			v, t, ok := ex.desigTarget(cl, ex.params, ex.entry)
			if !ok {
				continue
			}
			et := deref(t)
			if v.Loc != nil {
				switch v.Loc.Kind {
				case LField, LCell:
					get(v.Loc.Heap).refs = append(get(v.Loc.Heap).refs, v.Loc.Base)
				case LElem:
					get(v.Loc.Heap).elems = append(get(v.Loc.Heap).elems, [2]string{v.Loc.Base, v.Loc.Idx})
				case LGlobal, LLocal:
					get(v.Loc.Heap).whole = true
				default:
					ex.unsup("assigns designator kind not supported in frame check: %s", cl.Text)
				}
			} else if _, isS := isStruct(et); isS {
				ex.structRefHeaps(et, v.T, func(h, r string) { get(h).refs = append(get(h).refs, r) })
			} else {
				h := e.cellHeap(et)
				get(h).refs = append(get(h).refs, v.T)
			}
		case "fields":
			v, t, ok := ex.desigTarget(cl, ex.params, ex.entry)
			if !ok {
				continue
			}
			if v.Loc != nil {
				v = ex.env.materialize(v)
			}
			ex.structRefHeaps(deref(t), v.T, func(h, r string) { get(h).refs = append(get(h).refs, r) })
		case "elems":
			v, t, ok := ex.desigTarget(cl, ex.params, ex.entry)
			if !ok {
				continue
			}
			st := t.Underlying().(*types.Slice)
			arr := fmt.Sprintf("(s.arr %s)", v.T)
			if _, isS := isStruct(st.Elem()); isS {
				hs := map[string]bool{}
				e.structHeaps(st.Elem(), hs)
				for h := range hs {
					get(h).arrs = append(get(h).arrs, arr)
				}
			} else {
				get(e.elemHeap(st.Elem())).arrs = append(get(e.elemHeap(st.Elem())).arrs, arr)
			}
		}
	}
	return fi
}

// frameFormula: heap variable h is unchanged (cur vs old) outside the designated places; r, a, i are
// the (skolem or bound) names of the reference / array / index the formula talks about. ok == false:
// the variable needs no check (covered as a whole, or not a heap of a checkable sort).
func (ex *Exec) frameFormula(fi *frameInfo, h, cur, old, r, a, i string) (goal string, kind int) {
	e := ex.e
	srt := e.hsort[h]
	c := fi.cov[h]
	switch {
	case strings.HasPrefix(srt, "(Array Ref "):
		var ex1 []string
		ex1 = append(ex1, fmt.Sprintf("(not (select %s (rootref %s)))", ex.entry.get("alloc"), r))
		if c != nil {
			for _, x := range c.refs {
				ex1 = append(ex1, fmt.Sprintf("(= %s %s)", r, x))
			}
			for _, ar := range c.arrs {
				ex1 = append(ex1, fmt.Sprintf("(and ((_ is elemref) %s) (= (elemref_arr %s) %s))", r, r, ar))
			}
		}
		// elements of arrays allocated during the call
		ex1 = append(ex1, fmt.Sprintf("(and ((_ is elemref) %s) (not (select %s (elemref_arr %s))))", r, ex.entry.get("allocA"), r))
		return fmt.Sprintf("(or %s (= (select %s %s) (select %s %s)))", strings.Join(ex1, " "), cur, r, old, r), 1
	case strings.HasPrefix(srt, "(Array ArrRef "):
		var ex1 []string
		ex1 = append(ex1, fmt.Sprintf("(not (select %s %s))", ex.entry.get("allocA"), a))
		if c != nil {
			for _, x := range c.arrs {
				ex1 = append(ex1, fmt.Sprintf("(= %s %s)", a, x))
			}
			for _, el := range c.elems {
				ex1 = append(ex1, fmt.Sprintf("(and (= %s %s) (= %s %s))", a, el[0], i, el[1]))
			}
		}
		return fmt.Sprintf("(or %s (= (select (select %s %s) %s) (select (select %s %s) %s)))", strings.Join(ex1, " "), cur, a, i, old, a, i), 2
	}
	return fmt.Sprintf("(= %s %s)", cur, old), 0
}

// frameCheck: at a return, everything the function may have modified is covered by its assigns clause.
func (ex *Exec) frameCheck(p token.Pos) {
	fi := ex.frameCover()
	cc := ex.con
	if cc == nil || len(cc.Assigns) == 0 {
		return // no assigns clause: callers assume the worst
	}
	if fi.ncondRaw != "" {
		// conditional frame: when the condition held on entry no unknown code may have run
		ex.oblige("frame", "nothing-if-condition", fmt.Sprintf("(=> %s (not %s))", fi.ncondRaw, ex.st.get("jsfx")), p)
	}
	if fi.skip {
		return
	}
	e := ex.e
	vars, all := ex.modSet(nil)
	if all && !fi.scriptFrame && fi.ncond == "" {
		// unknown code may run somewhere in the function: not on a path that returns normally
		ex.oblige("frame", "no-unknown-code-on-returning-paths", fmt.Sprintf("(not %s)", ex.st.get("jsfx")), p)
	}
	if fi.scriptFrame && all {
		// frameless Go callees may have assigned the fields script is assumed to preserve: each
		// of them has to be unchanged or listed
		for h := range ex.g.jsPreserved {
			vars[h] = true
		}
	}
	for _, h := range sortedKeys(vars) {
		if h == "alloc" || h == "allocA" || strings.HasPrefix(h, "L_") {
			continue
		}
		if _, ok := e.hsort[h]; !ok {
			continue
		}
		if fi.scriptFrame && !ex.g.jsPreserved[h] {
			continue // callers assume nothing about it anyway
		}
		if fi.scriptFrame && ex.abruptExit && ex.g.abruptHavoc[h] {
			continue // not preserved by script that panics
		}
		if c := fi.cov[h]; c != nil && c.whole {
			continue
		}
		cur, old := ex.st.get(h), ex.entry.get(h)
		if cur == old {
			continue
		}
		goal, _ := ex.frameFormula(fi, h, cur, old, e.freshConst("fr", "Ref"), e.freshConst("fa", "ArrRef"), e.freshConst("fi", "Int"))
		if fi.ncond != "" {
			goal = fmt.Sprintf("(and (=> %s (= %s %s)) (=> (not %s) %s))", fi.ncond, cur, old, fi.ncond, goal)
		}
		ex.oblige("frame", h, goal, p)
	}
}

// loopFrameVars: the heap variables for which the function's frame is carried through a loop as an
// implicit invariant (assumed at the head after the havoc, checked on every back edge).
func (ex *Exec) loopFrameVars(vars map[string]bool) []string {
	fi := ex.frameCover()
	if fi.skip || fi.ncond != "" || ex.con == nil || len(ex.con.Assigns) == 0 {
		return nil
	}
	var out []string
	for _, h := range sortedKeys(vars) {
		if h == "alloc" || h == "allocA" || strings.HasPrefix(h, "L_") {
			continue
		}
		srt, ok := ex.e.hsort[h]
		if !ok || !(strings.HasPrefix(srt, "(Array Ref ") || strings.HasPrefix(srt, "(Array ArrRef ")) {
			continue
		}
		if fi.scriptFrame && !ex.g.jsPreserved[h] {
			continue
		}
		if c := fi.cov[h]; c != nil && c.whole {
			continue
		}
		out = append(out, h)
	}
	return out
}

func (ex *Exec) assumeLoopFrame(hs []string) {
	fi := ex.frameCover()
	for _, h := range hs {
		cur, old := ex.st.get(h), ex.entry.get(h)
		if cur == old {
			continue
		}
		r, a, i := ex.e.fresh("bv_fr"), ex.e.fresh("bv_fa"), ex.e.fresh("bv_fi")
		body, kind := ex.frameFormula(fi, h, cur, old, r, a, i)
		switch kind {
		case 1:
			ex.assumeHere(fmt.Sprintf("(forall ((%s Ref)) (! %s :pattern ((select %s %s))))", r, body, cur, r))
		case 2:
			ex.assumeHere(fmt.Sprintf("(forall ((%s ArrRef) (%s Int)) (! %s :pattern ((select (select %s %s) %s))))", a, i, body, cur, a, i))
		}
	}
}

func (ex *Exec) checkLoopFrame(hs []string, n int, p token.Pos) {
	fi := ex.frameCover()
	for _, h := range hs {
		cur, old := ex.st.get(h), ex.entry.get(h)
		if cur == old {
			continue
		}
		goal, _ := ex.frameFormula(fi, h, cur, old, ex.e.freshConst("fr", "Ref"), ex.e.freshConst("fa", "ArrRef"), ex.e.freshConst("fi", "Int"))
		ex.oblige(fmt.Sprintf("loop%d-preserve", n), "frame:"+h, goal, p)
	}
}

// structRefHeaps enumerates (heap var, ref) pairs for all leaf fields of the struct at r.
func (ex *Exec) structRefHeaps(t types.Type, r string, f func(h, r string)) {
	e := ex.e
	s, _ := isStruct(t)
	for i := 0; i < s.NumFields(); i++ {
		ft := s.Field(i).Type()
		if _, ok := isStruct(ft); ok {
			ex.structRefHeaps(ft, e.subRef(t, i, r), f)
			continue
		}
		h, _ := e.fieldHeap(t, i)
		f(h, r)
	}
}

// callSiteOrdinal: the 1-based position of call c among the calls to a function/method named name,
// in source order of the enclosing function.
func (ex *Exec) callSiteOrdinal(c *ssa.Call, name string) int {
	type site struct {
		pos int
		c   *ssa.Call
	}
	var sites []site
	for _, b := range ex.fn.Blocks {
		for _, in := range b.Instrs {
			cc, ok := in.(*ssa.Call)
			if !ok {
				continue
			}
			com := cc.Common()
			n := ""
			if com.IsInvoke() {
				n = com.Method.Name()
			} else if bi, ok := com.Value.(*ssa.Builtin); ok {
				n = bi.Name()
			} else if cal := com.StaticCallee(); cal != nil {
				n = cal.Name()
			}
			if n == name {
				sites = append(sites, site{int(cc.Pos()), cc})
			}
		}
	}
	sort.Slice(sites, func(i, j int) bool { return sites[i].pos < sites[j].pos })
	for i, s := range sites {
		if s.c == c {
			return i + 1
		}
	}
	return 0
}

// localStructRoot: fa addresses a field (possibly nested) of a non-escaping struct local.
func localStructRoot(fa *ssa.FieldAddr) *ssa.Alloc {
	var x ssa.Value = fa.X
	for {
		switch v := x.(type) {
		case *ssa.Alloc:
			if _, ok := isStruct(deref(v.Type())); ok && !v.Heap {
				return v
			}
			return nil
		case *ssa.FieldAddr:
			x = v.X
		default:
			return nil
		}
	}
}

// createsInvValue: does fn (or a static callee) box a value of a type with a creation invariant?
func (g *Gen) createsInvValue(fn *ssa.Function, depth int) bool {
	if depth > 4 {
		return true
	}
	for _, b := range fn.Blocks {
		for _, in := range b.Instrs {
			switch in := in.(type) {
			case *ssa.MakeInterface:
				if g.createInv[typeKey(in.X.Type())] != nil {
					return true
				}
			case *ssa.Call:
				if cal := in.Common().StaticCallee(); cal != nil && len(cal.Blocks) > 0 && cal != fn {
					if g.createsInvValue(cal, depth+1) {
						return true
					}
				}
			}
		}
	}
	return false
}
