package main

// Exceptional control flow: panics raised by the function or propagated from its callees, the
// deferred calls that run on the way out, recover(). A function takes part ("abrupt mode") when it
// has defer statements, calls recover() itself, or its contract has ensures_abrupt clauses.
//
//   - every explicit panic and every call that may panic (an unknown callee; a contracted callee with
//     ensures_abrupt clauses or the flag maypanic) forks an abrupt exit (condition, state, payload)
//   - at the end the abrupt exits are merged (per number of registered defers) and the deferred calls
//     are run innermost first: a deferred function with a contract is applied by contract (the name
//     "recovered" in its clauses is the value recover() returns), a closure is inlined
//   - a deferred function that calls recover() and returns normally stops the panic: the function
//     then returns through its recover block and has to establish its ordinary postconditions
//   - what remains abrupt has to establish the ensures_abrupt clauses
//
// Contracted callees without ensures_abrupt/maypanic are assumed not to panic (the same assumption
// every non-"safe" contract makes about runtime panics).

import (
	"fmt"
	"go/token"
	"go/types"
	"sort"

	"golang.org/x/tools/go/ssa"
)

type abruptPt struct {
	cond    string
	st      *State
	pv      Val // payload (Box), never nilbox
	ndefers int
	pos     token.Pos
}

type outcome struct {
	dead bool // may legitimately be unreachable (a deferred call "panicking" while nothing is recovered)
	cond string
	st   *State
	pv   *Val // nil: not panicking
	rets []Val
}

// inlineCtx: this Exec runs a deferred function inside its parent's verification condition.
type inlineCtx struct {
	rec     *Val // what recover() returns (nil: not panicking)
	normals []outcome
}

func fnCallsRecover(fn *ssa.Function) bool {
	for _, b := range fn.Blocks {
		for _, in := range b.Instrs {
			if c, ok := in.(*ssa.Call); ok {
				if bi, ok := c.Common().Value.(*ssa.Builtin); ok && bi.Name() == "recover" {
					return true
				}
			}
		}
	}
	return false
}

func fnHasDefer(fn *ssa.Function) bool {
	for _, b := range fn.Blocks {
		for _, in := range b.Instrs {
			if _, ok := in.(*ssa.Defer); ok {
				return true
			}
		}
	}
	return false
}

func (ex *Exec) rootExec() *Exec {
	r := ex
	for r.parent != nil {
		r = r.parent
	}
	return r
}

func (ex *Exec) abruptMode() bool {
	r := ex.rootExec()
	if r.sweep {
		return false
	}
	if r.abruptOn == 0 {
		r.abruptOn = 2
		if fnHasDefer(r.fn) || fnCallsRecover(r.fn) || (r.con != nil && len(r.con.EnsuresAbrupt) > 0) {
			r.abruptOn = 1
		}
	}
	return r.abruptOn == 1
}

// pseudo block: a reach condition for code that is not part of the CFG walk.
func (ex *Exec) withCond(cond string, st *State, f func()) *State {
	savedB, savedSt := ex.curBlock, ex.st
	pb := &ssa.BasicBlock{Index: -1}
	ex.reach[pb] = cond
	ex.curBlock = pb
	ex.st = st
	f()
	out := ex.st
	ex.curBlock, ex.st = savedB, savedSt
	delete(ex.reach, pb)
	return out
}

func (ex *Exec) curCond() string {
	if ex.curBlock == nil {
		return "true"
	}
	r := ex.reach[ex.curBlock]
	if r == "" {
		return "true"
	}
	return r
}

func and2(a, b string) string {
	if a == "true" || a == "" {
		return b
	}
	if b == "true" || b == "" {
		return a
	}
	return fmt.Sprintf("(and %s %s)", a, b)
}

// addAbrupt records an abrupt exit at the current point.
func (ex *Exec) addAbrupt(cond string, st *State, pv Val, pos token.Pos) {
	ex.abrupts = append(ex.abrupts, abruptPt{cond: cond, st: st, pv: pv, ndefers: ex.applicableDefers(), pos: pos})
}

// applicableDefers: how many of the deferred calls seen so far are registered on the way to the
// current point: those whose defer statement dominates it.
func (ex *Exec) applicableDefers() int {
	n := 0
	for _, d := range ex.deferred {
		if ex.realBlk == nil || d.Block() == ex.realBlk || d.Block().Dominates(ex.realBlk) {
			n++
		} else {
			break
		}
	}
	return n
}

func (ex *Exec) freshPayload() Val {
	c := ex.e.freshConst("panicv", "Box")
	ex.e.assume(fmt.Sprintf("(not (= %s nilbox))", c))
	return Val{T: c, S: "Box"}
}

// forkUnknownPanic: an unknown callee may panic with anything after doing anything.
func (ex *Exec) forkUnknownPanic(pos token.Pos) {
	if !ex.abruptMode() {
		return
	}
	q := ex.e.freshConst("panics", "Bool")
	cond := and2(ex.curCond(), q)
	var st *State
	ex.withCond(cond, ex.st, func() { st = ex.jsEffect2(ex.st, true) })
	ex.addAbrupt(cond, st, ex.freshPayload(), pos)
	ex.continueWithout(q)
}

// forkContractPanic: a contracted callee that declares abrupt behaviour.
func (ex *Exec) forkContractPanic(cc *Contract, m map[string]Val, pre *State, pos token.Pos) {
	if !ex.abruptMode() || (len(cc.EnsuresAbrupt) == 0 && !cc.Flags["maypanic"]) {
		return
	}
	q := ex.e.freshConst("panics", "Bool")
	cond := and2(ex.curCond(), q)
	var post *State
	ex.withCond(cond, pre, func() { post = ex.havocAssignsAbrupt(cc, m, pre) })
	pv := ex.freshPayload()
	m2 := map[string]Val{}
	for k, v := range m {
		m2[k] = v
	}
	m2["panicValue"] = pv
	ex.withCond(cond, post, func() {
		for _, cl := range cc.EnsuresAbrupt {
			ex.fillGhosts(cc, cl, m2)
			ex.assumeHere(ex.clauseTerm(cl, m2, post, pre, false))
		}
	})
	ex.addAbrupt(cond, post, pv, pos)
	ex.continueWithout(q)
}

func (ex *Exec) fillGhosts(cc *Contract, cl *Clause, m map[string]Val) {
	if cl.Fn == nil {
		return
	}
	for i, nm := range cl.Names {
		if _, ok := m[nm]; ok {
			continue
		}
		if nm == "recovered" {
			m[nm] = Val{T: "nilbox", S: "Box"}
			continue
		}
		for _, gp := range append(append([]Param{}, cc.Ghost...), cc.ExitVars...) {
			if gp.Name == nm {
				m[nm] = ex.env.freshVal("ghost_"+nm, cl.Fn.Params[i].Type())
				ex.flushFacts()
			}
		}
	}
}

// mergeOutcomes folds outcomes of the same kind into one.
func (ex *Exec) mergeOutcomes(os []outcome) []outcome {
	var norm, abr []outcome
	for _, o := range os {
		if o.cond == "false" {
			continue
		}
		if o.pv == nil {
			norm = append(norm, o)
		} else {
			abr = append(abr, o)
		}
	}
	var out []outcome
	fold := func(g []outcome, panicking bool) {
		if len(g) == 0 {
			return
		}
		if len(g) == 1 {
			out = append(out, g[0])
			return
		}
		var conds []string
		var states []*State
		for _, o := range g {
			conds = append(conds, o.cond)
			states = append(states, o.st)
		}
		m := outcome{cond: ex.e.define("unw", "Bool", "(or "+joinSp(conds)+")"), st: mergeStates(ex.e, conds, states), dead: true}
		for _, o := range g {
			if !o.dead {
				m.dead = false
			}
		}
		if panicking {
			acc := *g[len(g)-1].pv
			for k := len(g) - 2; k >= 0; k-- {
				acc = ex.env.ite(g[k].cond, *g[k].pv, acc)
			}
			if !isAtom(acc.T) {
				acc.T = ex.e.define("panicv", "Box", acc.T)
			}
			m.pv = &acc
		}
		out = append(out, m)
	}
	fold(norm, false)
	fold(abr, true)
	return out
}

func joinSp(a []string) string {
	s := ""
	for i, x := range a {
		if i > 0 {
			s += " "
		}
		s += x
	}
	return s
}

// runDeferred executes one deferred call from the given situation.
func (ex *Exec) runDeferred(d *ssa.Defer, cond string, st *State, pv *Val) []outcome {
	com := d.Call
	if com.IsInvoke() {
		ex.unsup("deferred interface method call is not supported")
		return nil
	}
	callee := com.StaticCallee()
	var fv []Val
	if mc, ok := com.Value.(*ssa.MakeClosure); ok {
		fv = ex.get(mc).Clo.Bindings
	}
	if callee == nil {
		ex.unsup("deferred dynamic call is not supported")
		return nil
	}
	var args []Val
	for _, a := range com.Args {
		args = append(args, ex.get(a))
	}
	recovers := fnCallsRecover(callee)
	after := func(p *Val) *Val { // payload after a normal return of the deferred function
		if p != nil && recovers {
			return nil
		}
		return p
	}
	switch callee.String() {
	case "(*sync.Mutex).Unlock", "(*sync.RWMutex).Unlock", "(*sync.RWMutex).RUnlock":
		var out *State
		out = ex.withCond(cond, st.clone(), func() {
			if _, ok := ex.e.hsort["lockheld"]; ok {
				m := args[0]
				if m.Loc != nil {
					m = ex.env.materialize(m)
				}
				ex.oblige("lock", "deferred-unlock-of-held-mutex", fmt.Sprintf("(select %s %s)", ex.st.get("lockheld"), m.T), d.Pos())
				ex.st.set("lockheld", fmt.Sprintf("(store %s %s false)", ex.st.get("lockheld"), m.T))
			}
		})
		return []outcome{{cond: cond, st: out, pv: pv}}
	}
	cc := ex.g.contracts[callee]
	if cc != nil && !(cc.Flags["pure"] || cc.Flags["inline"] || cc.Flags["uninterpreted"]) {
		if len(cc.Errors) > 0 {
			ex.unsup("deferred callee contract %s has errors", callee.Name())
			return nil
		}
		name := callee.RelString(callee.Pkg.Pkg)
		ex.callN["defer "+name]++
		site := fmt.Sprintf("defer %s#%d", name, ex.callN["defer "+name])
		m := argMap(cc, args)
		if pv != nil {
			m["recovered"] = *pv
		} else {
			m["recovered"] = Val{T: "nilbox", S: "Box"}
		}
		var outs []outcome
		ex.withCond(cond, st, func() {
			for i, cl := range cc.Requires {
				lbl := cl.Label
				if lbl == "" {
					lbl = fmt.Sprintf("%d", i+1)
				}
				ex.fillGhosts(cc, cl, m)
				t := ex.clauseTerm(cl, m, st, st, true)
				ex.oblige("pre", site+":"+lbl, t, d.Pos())
				ex.obligs[len(ex.obligs)-1].Clause = cl
				ex.obligs[len(ex.obligs)-1].Callee = name
			}
		})
		ncond, acond := cond, "false"
		mayPanic := len(cc.EnsuresAbrupt) > 0 || cc.Flags["maypanic"]
		if mayPanic {
			q := ex.e.freshConst("dpanics", "Bool")
			ncond = and2(cond, "(not "+q+")")
			acond = and2(cond, q)
		}
		post := ex.havocAssigns(cc, m, st)
		ex.withCond(ncond, post, func() {
			for _, cl := range cc.Ensures {
				skip := false
				for _, r := range cc.Results {
					for _, nm := range cl.Names {
						if nm == r.Name {
							skip = true // results of a deferred call are discarded
						}
					}
				}
				if skip {
					continue
				}
				ex.fillGhosts(cc, cl, m)
				ex.assumeHere(ex.clauseTerm(cl, m, post, st, false))
			}
		})
		// a recovering function that is given a panic may well never return normally (it re-panics)
		outs = append(outs, outcome{cond: ncond, st: post, pv: after(pv), dead: pv != nil && recovers})
		if mayPanic {
			var post2 *State
			ex.withCond(acond, st, func() { post2 = ex.havocAssignsAbrupt(cc, m, st) })
			npv := ex.freshPayload()
			m2 := map[string]Val{}
			for k, v := range m {
				m2[k] = v
			}
			m2["panicValue"] = npv
			ex.withCond(acond, post2, func() {
				for _, cl := range cc.EnsuresAbrupt {
					ex.fillGhosts(cc, cl, m2)
					ex.assumeHere(ex.clauseTerm(cl, m2, post2, st, false))
				}
			})
			outs = append(outs, outcome{cond: acond, st: post2, pv: &npv, dead: pv == nil && recovers})
		}
		return outs
	}
	if len(callee.Blocks) == 0 {
		ex.unsup("deferred call of %s: no body and no contract", callee.String())
		return nil
	}
	// inline
	norm, abr := ex.inline(callee, args, fv, cond, st, pv)
	var outs []outcome
	for _, o := range norm {
		o.pv = after(pv)
		outs = append(outs, o)
	}
	for _, a := range abr {
		p := a.pv
		outs = append(outs, outcome{cond: a.cond, st: a.st, pv: &p})
	}
	return outs
}

// inline runs fn's body inside this verification condition.
func (ex *Exec) inline(fn *ssa.Function, args, fv []Val, cond string, st *State, rec *Val) ([]outcome, []abruptPt) {
	root := ex.rootExec()
	root.inlineN++
	if root.inlineN > 200 {
		ex.unsup("too many inlined deferred calls")
		return nil, nil
	}
	if fnHasDefer(fn) {
		ex.unsup("deferred function %s has its own defer statements", fn.Name())
		return nil, nil
	}
	ch := &Exec{g: ex.g, e: ex.e, env: ex.env, fn: fn, vals: map[ssa.Value]Val{}, reach: map[*ssa.BasicBlock]string{},
		exit: map[*ssa.BasicBlock]*State{}, edge: map[[2]int]string{}, locals: map[*ssa.Alloc]string{}, callN: ex.callN, safeN: ex.safeN,
		parent: ex, entry: ex.entry, params: map[string]Val{}, inl: &inlineCtx{rec: rec}}
	ch.obligs = ex.obligs
	for i, p := range fn.Params {
		if i < len(args) {
			ch.vals[p] = args[i]
		}
	}
	for i, f := range fn.FreeVars {
		if i < len(fv) {
			ch.vals[f] = fv[i]
		}
	}
	if err := ch.findLoops(); err != nil {
		ex.unsup("%v", err)
		return nil, nil
	}
	if len(ch.loops) > 0 {
		ex.unsup("deferred function %s contains a loop (give it a contract)", fn.Name())
		return nil, nil
	}
	n := 0
	for _, b := range fn.Blocks {
		for _, in := range b.Instrs {
			if a, ok := in.(*ssa.Alloc); ok {
				n++
				ch.locals[a] = fmt.Sprintf("L_i%d_%d_%s", root.inlineN, n, sanitize(a.Comment))
			}
		}
	}
	ch.st = st.clone()
	ch.reach[fn.Blocks[0]] = cond
	for _, b := range ch.order() {
		if b == fn.Recover {
			continue
		}
		ch.execBlock(b)
		if len(ch.unsupported) > 0 {
			break
		}
	}
	ex.obligs = ch.obligs
	for _, u := range ch.unsupported {
		ex.unsup("in deferred %s: %s", fn.Name(), u)
	}
	return ch.inl.normals, ch.abrupts
}

// unwind runs the deferred calls registered before index k, innermost first.
func (ex *Exec) unwind(k int, start outcome) []outcome {
	cur := []outcome{start}
	for i := k - 1; i >= 0; i-- {
		var next []outcome
		for _, o := range cur {
			if o.dead {
				ex.deadCtx++
			}
			outs := ex.runDeferred(ex.deferred[i], o.cond, o.st, o.pv)
			if o.dead {
				ex.deadCtx--
			}
			if o.dead {
				for k := range outs {
					outs[k].dead = true
				}
			}
			next = append(next, outs...)
			if len(ex.unsupported) > 0 {
				return nil
			}
		}
		cur = ex.mergeOutcomes(next)
	}
	return cur
}

// runDefersNormal: the RunDefers instruction on a returning path.
func (ex *Exec) runDefersNormal(in *ssa.RunDefers) {
	nd := ex.applicableDefers()
	if nd == 0 {
		return
	}
	b := in.Block()
	outs := ex.unwind(nd, outcome{cond: ex.curCond(), st: ex.st})
	if len(ex.unsupported) > 0 {
		return
	}
	gotNormal := false
	for _, o := range outs {
		if o.pv == nil {
			ex.st = o.st.clone()
			if o.cond != ex.reach[b] {
				ex.reach[b] = ex.e.define("reach_rd", "Bool", o.cond)
			}
			gotNormal = true
		} else {
			ex.finalAbrupt(o, in.Pos())
		}
	}
	if !gotNormal {
		ex.reach[b] = "false"
	}
}

// finalAbrupt: the function is left by a panic.
func (ex *Exec) finalAbrupt(o outcome, pos token.Pos) {
	if o.dead {
		ex.deadCtx++
		defer func() { ex.deadCtx-- }()
	}
	if ex.parent != nil {
		ex.abrupts = append(ex.abrupts, abruptPt{cond: o.cond, st: o.st, pv: *o.pv, pos: pos})
		return
	}
	if ex.con == nil {
		return
	}
	if len(ex.con.EnsuresAbrupt) == 0 && !ex.con.Flags["maypanic"] {
		return // callers do not consider a panic of this function
	}
	ex.withCond(o.cond, o.st, func() {
		defer func() { // callers apply the frame to the panicking exit as well
			ex.abruptExit = true
			ex.frameCheck(pos)
			ex.abruptExit = false
		}()
		m := ex.resultMap(nil)
		m["panicValue"] = *o.pv
		for _, p := range ex.con.ExitVars {
			// a local named in exitvars: usable on abrupt exits if it is assigned exactly once
			if val, ok := ex.exitVarVal(p.Name); ok {
				m[p.Name] = val
			}
		}
		for i, cl := range ex.con.EnsuresAbrupt {
			if cl.Assumed {
				continue
			}
			lbl := cl.Label
			if lbl == "" {
				lbl = fmt.Sprintf("%d", i+1)
			}
			ex.fillGhosts(ex.con, cl, m)
			t := ex.clauseTerm(cl, m, ex.st, ex.entry, true)
			ex.oblige("ensures_abrupt", lbl, t, pos)
			ex.obligs[len(ex.obligs)-1].Clause = cl
		}
	})
}

// finishAbrupt: after the CFG walk of the root function, unwind every abrupt exit.
func (ex *Exec) finishAbrupt() {
	if ex.parent != nil || len(ex.abrupts) == 0 {
		return
	}
	groups := map[int][]abruptPt{}
	for _, a := range ex.abrupts {
		groups[a.ndefers] = append(groups[a.ndefers], a)
	}
	var ks []int
	for k := range groups {
		ks = append(ks, k)
	}
	sort.Ints(ks)
	for _, k := range ks {
		var os []outcome
		var pos token.Pos
		for _, a := range groups[k] {
			p := a.pv
			os = append(os, outcome{cond: a.cond, st: a.st, pv: &p})
			pos = a.pos
		}
		merged := ex.mergeOutcomes(os)
		for _, start := range merged {
			outs := ex.unwind(k, start)
			if len(ex.unsupported) > 0 {
				return
			}
			for _, o := range outs {
				if o.pv != nil {
					ex.finalAbrupt(o, pos)
				} else {
					ex.recoveredReturn(o)
				}
			}
		}
	}
}

// recoveredReturn: a deferred function recovered; the function returns through its recover block
// (named results as they are now) and owes its ordinary postconditions.
func (ex *Exec) recoveredReturn(o outcome) {
	if o.dead {
		ex.deadCtx++
		defer func() { ex.deadCtx-- }()
	}
	rb := ex.fn.Recover
	if rb == nil {
		// no named results: zero values are returned
		ex.withCond(o.cond, o.st, func() {
			if ex.con == nil {
				return
			}
			var vals []Val
			res := ex.fn.Signature.Results()
			for i := 0; i < res.Len(); i++ {
				vals = append(vals, Val{T: ex.e.zeroValue(res.At(i).Type()), S: ex.e.sortOf(res.At(i).Type())})
			}
			ex.ensuresAt(vals, ex.fn.Pos())
		})
		return
	}
	savedB, savedSt := ex.curBlock, ex.st
	ex.reach[rb] = o.cond
	ex.curBlock = rb
	ex.st = o.st.clone()
	for _, in := range rb.Instrs {
		ex.execInstr(in)
		ex.flushFacts()
		if len(ex.unsupported) > 0 {
			break
		}
	}
	ex.curBlock, ex.st = savedB, savedSt
}

var _ = types.Typ

// havocAssignsAbrupt: the callee's frame on a panicking exit. Without an explicit frame anything
// may have happened, and the abrupt reading of unknown code applies.
func (ex *Exec) havocAssignsAbrupt(cc *Contract, m map[string]Val, pre *State) *State {
	if len(cc.Assigns) == 0 {
		if cc.Flags["script"] {
			return ex.jsEffect2(pre, true)
		}
		return ex.jsEffect3(pre, true, true)
	}
	ex.abruptFrame = true
	defer func() { ex.abruptFrame = false }()
	return ex.havocAssigns(cc, m, pre)
}

// uniqueDef: the single SSA value a source variable is ever bound to (nil if none or several).
func (ex *Exec) uniqueDef(name string) ssa.Value {
	var found ssa.Value
	for _, b := range ex.fn.Blocks {
		for _, in := range b.Instrs {
			if d, ok := in.(*ssa.DebugRef); ok && !d.IsAddr {
				if id, ok := d.Expr.(interface{ String() string }); ok && id.String() == name {
					if found != nil && found != d.X {
						return nil
					}
					found = d.X
				}
			}
		}
	}
	return found
}

// exitVarVal: the value of a source variable at an exit that no definition dominates (abrupt exits,
// the recover block): a variable bound exactly once, or an address-taken local (its current content).
func (ex *Exec) exitVarVal(name string) (Val, bool) {
	if v := ex.uniqueDef(name); v != nil {
		if val, ok := ex.vals[v]; ok {
			return val, true
		}
	}
	var al *ssa.Alloc
	for _, b := range ex.fn.Blocks {
		for _, in := range b.Instrs {
			if d, ok := in.(*ssa.DebugRef); ok && d.IsAddr {
				if id, ok := d.Expr.(interface{ String() string }); ok && id.String() == name {
					if a, ok := d.X.(*ssa.Alloc); ok {
						if al != nil && al != a {
							return Val{}, false
						}
						al = a
					}
				}
			}
		}
	}
	if al == nil {
		// the variable lives in memory (captured by a closure): its cell is the Alloc named after it
		for _, b := range ex.fn.Blocks {
			for _, in := range b.Instrs {
				if a, ok := in.(*ssa.Alloc); ok && a.Comment == name {
					if al != nil && al != a {
						return Val{}, false
					}
					al = a
				}
			}
		}
	}
	if al == nil {
		return Val{}, false
	}
	av, ok := ex.vals[al]
	if !ok {
		return Val{}, false
	}
	return ex.env.loadVal(ex.st, av, deref(al.Type())), true
}

// continueWithout: the path that continues after a call that may panic is the one on which it did not.
func (ex *Exec) continueWithout(q string) {
	if ex.curBlock == nil {
		return
	}
	old := ex.reach[ex.curBlock]
	nr := ex.e.define("reach_np", "Bool", and2(old, "(not "+q+")"))
	ex.reach[ex.curBlock] = nr
	if ex.blockStart != nil {
		if sc, ok := ex.blockStart[old]; ok {
			ex.blockStart[nr] = sc
		}
	}
}
