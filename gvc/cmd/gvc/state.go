package main

import (
	"fmt"
	"go/types"
	"strings"
)

// State maps heap variables to their current SMT term.  Heap variables are registered lazily, so a
// state is a chain: own map, then (for a join) the lazily merged predecessor states, then (after a
// havoc-all) the parent for variables that script execution cannot change, then the initial
// version name@id of this epoch.
type State struct {
	e       *Emitter
	heap    map[string]string
	id      string
	parent  *State
	keep    func(name string) bool // which vars fall through to parent
	mconds  []string
	mstates []*State
}

func (e *Emitter) newState(id string) *State {
	return &State{e: e, heap: map[string]string{}, id: id}
}

func (s *State) clone() *State {
	n := &State{e: s.e, heap: make(map[string]string, len(s.heap)), id: s.id, parent: s.parent, keep: s.keep, mconds: s.mconds, mstates: s.mstates}
	for k, v := range s.heap {
		n.heap[k] = v
	}
	return n
}

// get returns the current term of heap variable name.
func (s *State) get(name string) string {
	if t, ok := s.heap[name]; ok {
		return t
	}
	srt, ok := s.e.hsort[name]
	if !ok {
		panic("unregistered heap var " + name)
	}
	var t string
	switch {
	case s.mstates != nil:
		first := s.mstates[0].get(name)
		same := true
		for _, st := range s.mstates[1:] {
			if st.get(name) != first {
				same = false
			}
		}
		if same {
			t = first
		} else {
			t = s.mstates[len(s.mstates)-1].get(name)
			for i := len(s.mstates) - 2; i >= 0; i-- {
				t = fmt.Sprintf("(ite %s %s %s)", s.mconds[i], s.mstates[i].get(name), t)
			}
			t = s.e.define(name, srt, t)
			// let congruence closure see through the merge: under each branch condition the merged
			// heap is that branch's heap (quantifier instantiation does not look inside ite)
			for i := 0; i < len(s.mstates)-1; i++ {
				s.e.line(fmt.Sprintf("(assert (=> %s (= %s %s)))", s.mconds[i], t, s.mstates[i].get(name)))
			}
			if len(s.mstates) == 2 {
				s.e.line(fmt.Sprintf("(assert (=> (not %s) (= %s %s)))", s.mconds[0], t, s.mstates[1].get(name)))
			}
		}
	case s.parent != nil && s.keep != nil && s.keep(name):
		t = s.parent.get(name)
	default:
		t = name + "@" + s.id
		s.e.declConst(t, srt)
	}
	s.heap[name] = t
	return t
}

func (s *State) set(name, term string) {
	s.heap[name] = s.e.define(name, s.e.hsort[name], term)
}

// havoc gives heap variable name a fresh unconstrained value.
func (s *State) havoc(name string) {
	s.heap[name] = s.e.freshConst(name, s.e.hsort[name])
}

// havocAll starts a new epoch: every heap variable gets a fresh value except those keep() retains.
func (s *State) havocAll(keep func(string) bool) *State {
	return &State{e: s.e, heap: map[string]string{}, id: s.e.fresh("ep"), parent: s, keep: keep}
}

// mergeStates builds the state at a join: conds[i] guards states[i] (mutually exclusive).
func mergeStates(e *Emitter, conds []string, states []*State) *State {
	if len(states) == 1 {
		return states[0].clone()
	}
	return &State{e: e, heap: map[string]string{}, id: e.fresh("mg"), mconds: conds, mstates: states}
}

// ---- loads and stores through locations

func (e *Emitter) load(st *State, l *Loc) string {
	switch l.Kind {
	case LField, LCell:
		return fmt.Sprintf("(select %s %s)", st.get(l.Heap), l.Base)
	case LElem:
		return fmt.Sprintf("(select (select %s %s) %s)", st.get(l.Heap), l.Base, l.Idx)
	case LGlobal, LLocal:
		return st.get(l.Heap)
	case LSub:
		return fmt.Sprintf("(select %s %s)", e.load(st, l.Parent), l.Idx)
	case LArr:
		at := l.Typ.Underlying().(*types.Array)
		return fmt.Sprintf("(select %s %s)", st.get(e.elemHeap(at.Elem())), l.Base)
	case LFieldOf:
		pt := l.Parent.Typ
		ps, _ := isStruct(pt)
		var fi int
		fmt.Sscanf(l.Idx, "%d", &fi)
		return fmt.Sprintf("(%s.%s %s)", e.sortOf(pt), fieldName(ps.Field(fi), fi), e.load(st, l.Parent))
	}
	panic("load: bad loc")
}

func (e *Emitter) store(st *State, l *Loc, v string) {
	switch l.Kind {
	case LField, LCell:
		st.set(l.Heap, fmt.Sprintf("(store %s %s %s)", st.get(l.Heap), l.Base, v))
	case LElem:
		h := st.get(l.Heap)
		st.set(l.Heap, fmt.Sprintf("(store %s %s (store (select %s %s) %s %s))", h, l.Base, h, l.Base, l.Idx, v))
	case LGlobal, LLocal:
		st.set(l.Heap, v)
	case LSub:
		e.store(st, l.Parent, fmt.Sprintf("(store %s %s %s)", e.load(st, l.Parent), l.Idx, v))
	case LArr:
		at := l.Typ.Underlying().(*types.Array)
		h := e.elemHeap(at.Elem())
		st.set(h, fmt.Sprintf("(store %s %s %s)", st.get(h), l.Base, v))
	case LFieldOf:
		pt := l.Parent.Typ
		ps, _ := isStruct(pt)
		var fi int
		fmt.Sscanf(l.Idx, "%d", &fi)
		name := e.sortOf(pt)
		cur := e.load(st, l.Parent)
		var fs []string
		for i := 0; i < ps.NumFields(); i++ {
			if i == fi {
				fs = append(fs, v)
			} else {
				fs = append(fs, fmt.Sprintf("(%s.%s %s)", name, fieldName(ps.Field(i), i), cur))
			}
		}
		e.store(st, l.Parent, fmt.Sprintf("(mk_%s %s)", name, strings.Join(fs, " ")))
	default:
		panic("store: bad loc")
	}
}

// loadStruct builds the datatype value of the struct of type t at ref r.
func (e *Emitter) loadStruct(st *State, t types.Type, r string) string {
	s, _ := isStruct(t)
	name := e.sortOf(t)
	if s.NumFields() == 0 {
		return "mk_" + name
	}
	var fs []string
	for i := 0; i < s.NumFields(); i++ {
		ft := s.Field(i).Type()
		if _, ok := isStruct(ft); ok {
			fs = append(fs, e.loadStruct(st, ft, e.subRef(t, i, r)))
		} else {
			h, _ := e.fieldHeap(t, i)
			fs = append(fs, fmt.Sprintf("(select %s %s)", st.get(h), r))
		}
	}
	return fmt.Sprintf("(mk_%s %s)", name, strings.Join(fs, " "))
}

// storeStruct writes datatype value v of struct type t to ref r.
func (e *Emitter) storeStruct(st *State, t types.Type, r, v string) {
	s, _ := isStruct(t)
	name := e.sortOf(t)
	for i := 0; i < s.NumFields(); i++ {
		ft := s.Field(i).Type()
		fv := fmt.Sprintf("(%s.%s %s)", name, fieldName(s.Field(i), i), v)
		if _, ok := isStruct(ft); ok {
			e.storeStruct(st, ft, e.subRef(t, i, r), fv)
		} else {
			h, _ := e.fieldHeap(t, i)
			st.set(h, fmt.Sprintf("(store %s %s %s)", st.get(h), r, fv))
		}
	}
}

// structHeaps lists every heap var holding (transitively) a field of struct type t.
func (e *Emitter) structHeaps(t types.Type, out map[string]bool) {
	s, _ := isStruct(t)
	for i := 0; i < s.NumFields(); i++ {
		ft := s.Field(i).Type()
		if _, ok := isStruct(ft); ok {
			e.structHeaps(ft, out)
		} else {
			h, _ := e.fieldHeap(t, i)
			out[h] = true
		}
	}
}

// zeroValue returns the SMT term of the zero value of Go type t.
func (e *Emitter) zeroValue(t types.Type) string {
	switch u := t.Underlying().(type) {
	case *types.Basic:
		switch {
		case u.Info()&types.IsBoolean != 0:
			return "false"
		case u.Info()&types.IsInteger != 0:
			return "0"
		case u.Kind() == types.Float64 || u.Kind() == types.UntypedFloat:
			return "(_ +zero 11 53)"
		case u.Kind() == types.Float32:
			return "(_ +zero 8 24)"
		case u.Info()&types.IsString != 0:
			return e.strConst("")
		}
		return "nil"
	case *types.Pointer, *types.Map, *types.Chan:
		return "nil"
	case *types.Slice:
		return "(mk-slice nilarr 0 0 0)"
	case *types.Signature:
		return "nilfn"
	case *types.Interface:
		return "nilbox"
	case *types.Struct:
		name := e.sortOf(t)
		if u.NumFields() == 0 {
			return "mk_" + name
		}
		var fs []string
		for i := 0; i < u.NumFields(); i++ {
			fs = append(fs, e.zeroValue(u.Field(i).Type()))
		}
		return fmt.Sprintf("(mk_%s %s)", name, strings.Join(fs, " "))
	case *types.Array:
		return fmt.Sprintf("((as const %s) %s)", e.sortOf(t), e.zeroValue(u.Elem()))
	}
	return "0"
}

// strConst returns the constant denoting a Go string literal.
func (e *Emitter) strConst(s string) string {
	h := uint32(2166136261)
	for i := 0; i < len(s); i++ {
		h = (h ^ uint32(s[i])) * 16777619
	}
	name := fmt.Sprintf("strlit_%d_%x", len(s), h)
	if !e.declared[name] {
		e.declared[name] = true
		e.pre = append(e.pre, fmt.Sprintf("(declare-const %s Str)", name), fmt.Sprintf("(assert (= (str_len %s) %d))", name, len(s)))
		if len(s) == 0 {
			// the empty string is the only string of length 0
			e.pre = append(e.pre, fmt.Sprintf("(assert (forall ((s Str)) (! (=> (= (str_len s) 0) (= s %s)) :pattern ((str_len s)))))", name))
		}
		if len(s) <= 16 {
			for i := 0; i < len(s); i++ {
				e.pre = append(e.pre, fmt.Sprintf("(assert (= (str_at %s %d) %d))", name, i, s[i]))
			}
		}
		// distinctness from other literals of the same length is implied by content when short
	}
	return name
}

// constArray: the array (Array Int elemSort) holding zero everywhere. cvc5 only accepts literal
// values under (as const ...); for zero values that are declared constants (the empty string) a
// named array with a pattern axiom is used instead.
func (e *Emitter) constArray(elemSort, zero string) string {
	if !strings.HasPrefix(zero, "strlit_") {
		return fmt.Sprintf("((as const (Array Int %s)) %s)", elemSort, zero)
	}
	name := "zeroarr_" + sanitize(elemSort)
	if !e.declared[name] {
		e.declared[name] = true
		e.pre = append(e.pre, fmt.Sprintf("(declare-const %s (Array Int %s))", name, elemSort),
			fmt.Sprintf("(assert (forall ((i Int)) (! (= (select %s i) %s) :pattern ((select %s i)))))", name, zero, name))
	}
	return name
}
