package main

// Forward VC generation for one function under contract.

import (
	"regexp"
	"fmt"
	"go/constant"
	"go/token"
	"go/types"
	"os"
	"sort"
	"strings"

	"golang.org/x/tools/go/ssa"
)

type Oblig struct {
	TimeoutS  int // override (0 = default)
	Reach     string
	AssumeLine int // index of the script line that assumes this obligation's goal for what follows
	StartCut  int  // script position where the CFG block of this obligation begins (-1: not a plain block)
	MaybeDead bool // the path may legitimately be unreachable: not part of the vacuity check
	Name      string
	Func      string
	Kind      string
	Label     string
	Cut       int
	Goal      string
	Pos       string
	Inputs    []string
	Res       *SolveResult
	Clause    *Clause
	Callee    string
	ex        *Exec
}

type loopInfo struct {
	header *ssa.BasicBlock
	body   map[*ssa.BasicBlock]bool
	n      int
	spec   *LoopSpec
	// values at the head of an arbitrary iteration
	headState *State
	headVars  map[string]Val
	frameVars []string
	measure   string
}

type Exec struct {
	entry0lock   bool
	splitting    bool
	invQVals     []invQVal
	invVals      []invVal
	captured     map[string]Val
	callOrd      map[string]int
	replayAssume []string
	sweep        bool
	g            *Gen
	e            *Emitter
	env          *Env
	fn           *ssa.Function
	con          *Contract
	vals         map[ssa.Value]Val
	reach        map[*ssa.BasicBlock]string
	exit         map[*ssa.BasicBlock]*State
	edge         map[[2]int]string // (pred index, succ index) -> condition
	entry        *State
	params       map[string]Val
	obligs       []*Oblig
	loops        map[*ssa.BasicBlock]*loopInfo
	back         map[[2]int]bool
	locals       map[*ssa.Alloc]string
	callN        map[string]int
	safeN        map[string]int
	unsupported  []string
	curBlock     *ssa.BasicBlock
	st           *State
	inputs       []string
	held         []invQVal // values with abruptrely clauses
	deferred     []*ssa.Defer
	parent       *Exec      // set while a deferred function is inlined into its caller's VC
	inl          *inlineCtx // ditto
	abrupts      []abruptPt
	realBlk      *ssa.BasicBlock
	abruptFrame  bool
	exitCut      map[*ssa.BasicBlock]int
	frameMemo    map[bool]*frameInfo
	abruptExit   bool // the frame is being checked at a panicking exit
	blockStart   map[string]int // reach condition of a CFG block -> script position where the block begins
	deadBlocks   map[*ssa.BasicBlock]bool // blocks in which a callee that does not return (by its contract) was called
	deadCtx      int // >0: obligations generated now lie on a path that may legitimately be dead
	abruptOn     int
	inlineN      int
}

func (ex *Exec) unsup(format string, a ...interface{}) {
	ex.unsupported = append(ex.unsupported, fmt.Sprintf(format, a...))
}

func (ex *Exec) pos(p token.Pos) string {
	if !p.IsValid() {
		return ""
	}
	pp := ex.g.prog.Fset.Position(p)
	return fmt.Sprintf("%s:%d", strings.TrimPrefix(pp.Filename, ex.g.repo+"/"), pp.Line)
}

func (ex *Exec) flushFacts() {
	// side facts (value ranges of what was loaded or computed) hold where the value was obtained:
	// they are guarded by the path, like every other assumption made along it
	for _, f := range ex.env.side {
		if ex.curBlock != nil {
			ex.assumeHere(f)
		} else {
			ex.e.assume(f)
		}
	}
	ex.env.side = nil
}

// assumeHere adds a fact guarded by the reachability of the current block.
func (ex *Exec) assumeHere(f string) {
	if f == "" || f == "true" {
		return
	}
	r := ex.reach[ex.curBlock]
	if r == "true" || r == "" {
		ex.e.assume(f)
	} else {
		ex.e.assume(fmt.Sprintf("(=> %s %s)", r, f))
	}
}

// oblige records a proof obligation at the current point and then assumes it.
func (ex *Exec) oblige(kind, label, goal string, p token.Pos) {
	ex.flushFacts()
	r := "true"
	if ex.curBlock != nil {
		r = ex.reach[ex.curBlock]
	}
	g := goal
	if r != "true" {
		g = fmt.Sprintf("(=> %s %s)", r, goal)
	}
	root := ex.rootExec()
	if ex.parent != nil {
		label = "deferred:" + label
	}
	name := fmt.Sprintf("%s#%s[%s]", root.fnName(), kind, label)
	for _, o := range ex.obligs {
		if o.Name == name {
			ex.safeN[name]++
			name = fmt.Sprintf("%s#%s[%s~%d]", root.fnName(), kind, label, ex.safeN[name]+1)
			break
		}
	}
	o := &Oblig{Name: name, Func: root.fnName(), Kind: kind, Label: label, Cut: len(ex.e.lines), Goal: g, Pos: ex.pos(p), ex: root, Inputs: root.inputs, Reach: r}
	if root.con != nil && root.con.TimeoutS > 0 {
		o.TimeoutS = root.con.TimeoutS
	}
	o.MaybeDead = ex.deadCtx > 0 || ex.deadBlocks[ex.curBlock]
	o.StartCut = -1
	if ex.curBlock != nil && ex.curBlock.Index > 0 {
		if sc, ok := ex.blockStart[r]; ok {
			o.StartCut = sc
		}
	}
	ex.obligs = append(ex.obligs, o)
	o.AssumeLine = len(ex.e.lines)
	ex.e.assume(g)
}

func (ex *Exec) fnName() string {
	if ex.fn.Pkg != nil {
		return ex.fn.Pkg.Pkg.Name() + "." + ex.fn.RelString(ex.fn.Pkg.Pkg)
	}
	return ex.fn.String()
}

// get returns the translator value of an SSA value.
func (ex *Exec) get(v ssa.Value) Val {
	if r, ok := ex.vals[v]; ok {
		return r
	}
	if r, ok := ex.env.valueOf(v); ok {
		return r
	}
	ex.unsup("use of undefined value %s (%T)", v.Name(), v)
	r := ex.env.freshVal("undef", v.Type())
	ex.vals[v] = r
	return r
}

// paramVal declares the symbolic value of a parameter / free variable.
func (ex *Exec) paramVal(name string, t types.Type) Val {
	s := ex.e.sortOf(t)
	c := ex.e.declConst("p_"+sanitize(name), s)
	ex.inputs = append(ex.inputs, c)
	if s == "Str" {
		// the text of a string input is part of the counterexample: its length and first bytes
		ex.e.assume(fmt.Sprintf("(and (>= (str_len %s) 0) (<= (str_len %s) 1099511627776))", c, c))
		ex.inputs = append(ex.inputs, fmt.Sprintf("(str_len %s)", c))
		for i := 0; i < 48; i++ {
			ex.inputs = append(ex.inputs, fmt.Sprintf("(str_at %s %d)", c, i))
		}
	}
	ex.e.assume(ex.e.rangeAssume(c, t))
	if s == "Ref" {
		ex.e.assume(fmt.Sprintf("(or (= %s nil) (select %s (rootref %s)))", c, ex.entry.get("alloc"), c))
	}
	v := Val{T: c, S: s}
	ex.rely(v, t)
	return v
}

func (ex *Exec) relyInvOnly(v Val, t types.Type) {
	if v.T != "" && v.Loc == nil && v.Tup == nil {
		ex.holdForAbrupt(v, t)
		for _, cl := range ex.g.typeInvQ[typeKey(t)] {
			ex.invQVals = append(ex.invQVals, invQVal{v, cl})
			ex.assumeHere(ex.clauseTerm(cl, map[string]Val{cl.ObsName: v}, ex.st, ex.entry, false))
		}
		if inv := ex.g.typeInv[typeKey(t)]; inv != nil {
			ex.invVals = append(ex.invVals, invVal{v, inv})
			ex.assumeInv(v, inv)
		}
	}
}

type invQVal struct {
	v  Val
	cl *Clause
}

type invVal struct {
	v   Val
	inv *ssa.Function
}

// assumeInv assumes a heap-dependent type invariant of v in the current state.
func (ex *Exec) assumeInv(v Val, inv *ssa.Function) {
	saved := ex.env.side
	ex.env.side = nil
	r := ex.env.evalPure(inv, []Val{v}, nil, ex.st, ex.entry, 1)
	side := ex.env.side
	ex.env.side = saved
	for _, f := range side {
		ex.e.assume(f)
	}
	for _, er := range ex.env.errs {
		ex.unsup("type invariant %s: %s", inv.Name(), er)
	}
	ex.env.errs = nil
	if r.T != "" {
		ex.assumeHere(r.T)
	}
}

// rely: values that already exist satisfy the creation invariant of their type (the induction
// hypothesis of the global invariant whose other half is the create obligations).
func (ex *Exec) rely(v Val, t types.Type) {
	if v.T != "" && v.Loc == nil && v.Tup == nil {
		ex.holdForAbrupt(v, t)
		for _, cl := range ex.g.typeInvQ[typeKey(t)] {
			ex.invQVals = append(ex.invQVals, invQVal{v, cl})
			ex.assumeHere(ex.clauseTerm(cl, map[string]Val{cl.ObsName: v}, ex.st, ex.entry, false))
		}
		if inv := ex.g.typeInv[typeKey(t)]; inv != nil {
			ex.invVals = append(ex.invVals, invVal{v, inv})
			ex.assumeInv(v, inv)
		}
	}
	if len(ex.g.createInv) == 0 || v.T == "" || v.Loc != nil {
		return
	}
	if tp, ok := t.(*types.Tuple); ok {
		for i := 0; i < tp.Len() && i < len(v.Tup); i++ {
			ex.rely(v.Tup[i], tp.At(i).Type())
		}
		return
	}
	var arg Val
	var inv *ssa.Function
	if f := ex.g.createInv[typeKey(t)]; f != nil {
		box, _ := ex.e.boxFns(t)
		arg = Val{T: fmt.Sprintf("(%s %s)", box, v.T), S: "Box"}
		inv = f
	} else if isIface(t) {
		for _, f := range ex.g.createInv {
			inv = f
		}
		arg = v
	}
	if inv == nil {
		return
	}
	saved := ex.env.side
	ex.env.side = nil
	r := ex.env.evalPure(inv, []Val{arg}, nil, ex.st, ex.entry, 1)
	side := ex.env.side
	ex.env.side = saved
	for _, f := range side {
		ex.e.assume(f)
	}
	ex.env.errs = nil
	ex.e.assume(r.T)
}

func (ex *Exec) findLoops() error {
	ex.loops = map[*ssa.BasicBlock]*loopInfo{}
	ex.back = map[[2]int]bool{}
	for _, b := range ex.fn.Blocks {
		for _, s := range b.Succs {
			if s.Dominates(b) {
				ex.back[[2]int{b.Index, s.Index}] = true
				li := ex.loops[s]
				if li == nil {
					li = &loopInfo{header: s, body: map[*ssa.BasicBlock]bool{s: true}}
					ex.loops[s] = li
				}
				// natural loop of back edge b->s
				var stack []*ssa.BasicBlock
				if !li.body[b] {
					li.body[b] = true
					stack = append(stack, b)
				}
				for len(stack) > 0 {
					x := stack[len(stack)-1]
					stack = stack[:len(stack)-1]
					for _, p := range x.Preds {
						if !li.body[p] {
							li.body[p] = true
							stack = append(stack, p)
						}
					}
				}
			}
		}
	}
	var hs []*ssa.BasicBlock
	for h := range ex.loops {
		hs = append(hs, h)
	}
	sort.Slice(hs, func(i, j int) bool { return hs[i].Index < hs[j].Index })
	for i, h := range hs {
		ex.loops[h].n = i + 1
		if ex.con != nil {
			ex.loops[h].spec = ex.con.Loops[i+1]
		}
	}
	return nil
}

// order returns the blocks in a topological order of the CFG without back edges.
func (ex *Exec) order() []*ssa.BasicBlock {
	seen := map[*ssa.BasicBlock]bool{}
	var post []*ssa.BasicBlock
	var dfs func(b *ssa.BasicBlock)
	dfs = func(b *ssa.BasicBlock) {
		seen[b] = true
		for _, s := range b.Succs {
			if ex.back[[2]int{b.Index, s.Index}] || seen[s] {
				continue
			}
			dfs(s)
		}
		post = append(post, b)
	}
	dfs(ex.fn.Blocks[0])
	for i, j := 0, len(post)-1; i < j; i, j = i+1, j-1 {
		post[i], post[j] = post[j], post[i]
	}
	return post
}

func (ex *Exec) keepStable(extra map[string]bool) func(string) bool {
	return func(name string) bool {
		if strings.HasPrefix(name, "G_") || ex.g.stable[name] || ex.g.jsPreserved[name] {
			return true
		}
		if name == "lockheld" {
			return true // unknown code is assumed lock-balanced
		}
		if name == "alloc" || name == "allocA" {
			// the ghost allocation sets are read as "every object that exists or that unknown code
			// will ever create": unknown code then never changes them, and the only facts used —
			// objects we allocate ourselves are new and distinct from everything else — stay true
			return true
		}
		if strings.HasPrefix(name, "L_") {
			return !extra[name]
		}
		return false
	}
}

// closureOnlyReads: the closure uses the captured variable only by loading it.
func closureOnlyReads(mc *ssa.MakeClosure, a *ssa.Alloc) bool {
	fn, ok := mc.Fn.(*ssa.Function)
	if !ok {
		return false
	}
	for i, b := range mc.Bindings {
		if b != ssa.Value(a) || i >= len(fn.FreeVars) {
			continue
		}
		refs := fn.FreeVars[i].Referrers()
		if refs == nil {
			return false
		}
		for _, u := range *refs {
			switch u := u.(type) {
			case *ssa.UnOp, *ssa.DebugRef:
			case *ssa.MakeClosure:
				// passed on to a nested closure: that one must only read it as well
				if nfn, ok := u.Fn.(*ssa.Function); ok {
					for j, nb := range u.Bindings {
						if nb == ssa.Value(fn.FreeVars[i]) && j < len(nfn.FreeVars) {
							nrefs := nfn.FreeVars[j].Referrers()
							if nrefs == nil {
								return false
							}
							for _, nu := range *nrefs {
								switch nu.(type) {
								case *ssa.UnOp, *ssa.DebugRef:
								default:
									return false
								}
							}
						}
					}
				} else {
					return false
				}
			default:
				return false
			}
		}
	}
	return true
}

// allocEscapes: can code outside this function reach the local? A local that is only captured by
// closures which are deferred right away is touched by nothing but those deferred calls.
func allocEscapes(a *ssa.Alloc) bool {
	refs := a.Referrers()
	if refs == nil {
		return true
	}
	for _, r := range *refs {
		switch r := r.(type) {
		case *ssa.Store:
			if r.Addr != ssa.Value(a) {
				return true
			}
		case *ssa.UnOp, *ssa.DebugRef:
		case *ssa.MakeClosure:
			if closureOnlyReads(r, a) {
				continue // whoever gets the closure can only read the variable through it
			}
			rr := r.Referrers()
			if rr == nil {
				return true
			}
			for _, u := range *rr {
				if _, dbg := u.(*ssa.DebugRef); dbg {
					continue
				}
				if d, ok := u.(*ssa.Defer); !ok || d.Call.Value != ssa.Value(r) {
					if os.Getenv("GVC_DEBUG_ESC") != "" {
						fmt.Fprintf(os.Stderr, "escapes: %s via closure user %T %s\n", a.Comment, u, u)
					}
					return true
				}
			}
		default:
			if os.Getenv("GVC_DEBUG_ESC") != "" {
				fmt.Fprintf(os.Stderr, "escapes: %s via %T %s\n", a.Comment, r, r)
			}
			return true
		}
	}
	return false
}

// jsEffect: anything script can do.
func (ex *Exec) jsEffect(st *State) *State {
	return ex.jsEffect2(st, false)
}

func (ex *Exec) holdForAbrupt(v Val, t types.Type) {
	r := ex.rootExec()
	for _, cl := range ex.g.abruptRely[typeKey(t)] {
		dup := false
		for _, h := range r.held {
			if h.v.T == v.T && h.cl == cl {
				dup = true
			}
		}
		if !dup {
			r.held = append(r.held, invQVal{v, cl})
		}
	}
}

// jsEffect2: abrupt = the unknown code ended in a panic: fields listed under abrupthavoc are not
// preserved; instead the abruptrely clauses relate the state it leaves behind to the one before.
func (ex *Exec) jsEffect2(st *State, abrupt bool) *State {
	return ex.jsEffect3(st, abrupt, false)
}

// jsEffect3: goCode = the unknown code is a Go function of the package (a contract without a frame),
// which may also assign the fields script is assumed to preserve.
func (ex *Exec) jsEffect3(st *State, abrupt, goCode bool) *State {
	esc := map[string]bool{}
	for x := ex; x != nil; x = x.parent {
		for a, n := range x.locals {
			if a.Heap && allocEscapes(a) {
				esc[n] = true
			}
		}
	}
	keep := ex.keepStable(esc)
	if abrupt {
		k0 := keep
		keep = func(name string) bool { return k0(name) && !ex.g.abruptHavoc[name] }
	}
	if goCode {
		k1 := keep
		keep = func(name string) bool { return k1(name) && !ex.g.jsPreserved[name] }
	}
	n := st.havocAll(keep)
	n.heap["jsfx"] = "true"
	if !goCode && ex.curBlock != nil {
		for _, cls := range ex.g.scriptRely {
			for _, cl := range cls {
				if t := ex.clauseTermAll(cl, n, st); t != "" {
					ex.assumeHere(t)
				}
			}
		}
	}
	if abrupt && !goCode && ex.curBlock != nil {
		for _, h := range ex.rootExec().held {
			ex.assumeHere(ex.clauseTerm(h.cl, map[string]Val{h.cl.ObsName: h.v}, n, st, false))
		}
		// ... and for every other object of the type (one reached later, or only named in a clause)
		for _, cls := range ex.g.abruptRely {
			for _, cl := range cls {
				if t := ex.clauseTermAll(cl, n, st); t != "" {
					ex.assumeHere(t)
				}
			}
		}
	}
	if _, ok := ex.e.hsort["lastload"]; ok {
		n.heap["lastload"] = "nil" // unknown code ran: no poll is "the last event" any more
	}
	if len(ex.invVals)+len(ex.invQVals) > 0 && ex.curBlock != nil {
		// unknown code preserves the type invariants of the objects we hold
		savedSt := ex.st
		ex.st = n
		for _, iv := range ex.invVals {
			ex.assumeInv(iv.v, iv.inv)
		}
		for _, iv := range ex.invQVals {
			ex.assumeHere(ex.clauseTerm(iv.cl, map[string]Val{iv.cl.ObsName: iv.v}, ex.st, ex.entry, false))
		}
		ex.st = savedSt
	}
	return n
}

// run generates all obligations of the function.
func (ex *Exec) run() {
	e := ex.e
	e.regHeap("alloc", "(Array Ref Bool)")
	e.regHeap("allocA", "(Array ArrRef Bool)")
	e.regHeap("jsfx", "Bool") // ghost: has unknown code (jsEffect) run on this path?
	if len(ex.g.guarded) > 0 {
		e.regHeap("lockheld", "(Array Ref Bool)")
		ex.entry0lock = true
	}
	ex.entry = e.newState("0")
	ex.entry.heap["jsfx"] = "false"
	if ex.entry0lock {
		// on entry this activation holds no mutex
		ex.entry.heap["lockheld"] = "((as const (Array Ref Bool)) false)"
	}
	ex.st = ex.entry.clone()
	e.assume(fmt.Sprintf("(not (select %s nil))", ex.entry.get("alloc")))
	ex.params = map[string]Val{}
	for i, p := range ex.fn.Params {
		v := ex.paramVal(fmt.Sprintf("%s", p.Name()), p.Type())
		ex.vals[p] = v
		if ex.con != nil && i < len(ex.con.Params) {
			ex.params[ex.con.Params[i].Name] = v
		}
		ex.params[p.Name()] = v
		if ex.con != nil && ex.con.IfaceOf != nil && i == 0 {
			// self of the interface contract is the boxed receiver
			pv := v
			if pv.Loc != nil {
				pv = ex.env.materialize(pv)
			}
			box, _ := e.boxFns(p.Type())
			ex.params["self"] = Val{T: fmt.Sprintf("(%s %s)", box, pv.T), S: "Box"}
		}
	}
	for _, fv := range ex.fn.FreeVars {
		ex.vals[fv] = ex.paramVal("fv_"+fv.Name(), fv.Type())
		if ex.con != nil {
			for _, p := range ex.con.FreeVars {
				if pt, ok := fv.Type().Underlying().(*types.Pointer); ok && p.Name == fv.Name() {
					ex.params[p.Name] = ex.env.loadVal(ex.st, ex.vals[fv], pt.Elem())
				}
			}
		}
	}
	if fnCallsRecover(ex.fn) {
		// a function written to be deferred: what recover() returns is an input (nil: not panicking)
		ex.params["recovered"] = ex.paramVal("recovered", types.NewInterfaceType(nil, nil))
	}
	if ex.con != nil {
		capt := map[string]bool{}
		for _, c := range ex.con.Captures {
			capt[c[0]] = true
			// capture x0 T = entry x : the value parameter x had on entry (parameters are assignable, and a
			// loop-carried variable of the same name hides the parameter inside loop invariants)
			if strings.HasPrefix(c[1], "entry ") {
				if v, ok := ex.params[strings.TrimSpace(strings.TrimPrefix(c[1], "entry "))]; ok {
					if ex.captured == nil {
						ex.captured = map[string]Val{}
					}
					ex.captured[c[0]] = v
					ex.params[c[0]] = v
				} else {
					ex.unsup("capture %s: no parameter %s", c[0], c[1])
				}
			}
		}
		for _, gp := range ex.con.Ghost {
			if !capt[gp.Name] {
				ex.unsup("ghost parameters are not supported yet (%s)", gp.Name)
			}
		}
	}
	// axioms
	for _, ax := range ex.g.cs.Axioms {
		if ax.Fn == nil {
			continue
		}
		t := ex.clauseTerm(ax, nil, ex.entry, ex.entry, false)
		e.assume(t)
	}
	ex.flushFacts()
	if ex.con != nil {
		for _, cl := range ex.con.Requires {
			e.assume(ex.clauseTerm(cl, ex.params, ex.entry, ex.entry, false))
		}
	}
	ex.flushFacts()
	if ex.con != nil {
		for _, cl := range ex.con.ReplayAssume {
			// restriction of the counterexample search to inputs the replay harness can build;
			// defined here (entry state), asserted only in the model-finding query
			t := ex.clauseTerm(cl, ex.params, ex.entry, ex.entry, true)
			ex.replayAssume = append(ex.replayAssume, e.define("replay_assume", "Bool", t))
		}
		for _, cl := range ex.con.Observe {
			if cl.Fn == nil {
				continue
			}
			var av []Val
			okk := true
			for _, nm := range cl.Names {
				v, ok := ex.params[nm]
				if !ok {
					okk = false
				}
				av = append(av, v)
			}
			if !okk {
				continue
			}
			r := ex.env.evalPure(cl.Fn, av, nil, ex.entry, ex.entry, 0)
			ex.flushFacts()
			ex.env.errs = nil
			if r.T != "" && r.Loc == nil {
				name := "obs_" + cl.ObsName
				e.line(fmt.Sprintf("(define-fun %s () %s %s)", name, r.S, r.T))
				ex.inputs = append(ex.inputs, name)
			}
		}
	}
	if err := ex.findLoops(); err != nil {
		ex.unsup("%v", err)
		return
	}
	for _, li := range ex.loops {
		if li.spec == nil || len(li.spec.Invariants) == 0 {
			if ex.sweep {
				if li.spec == nil {
					li.spec = &LoopSpec{N: li.n}
				}
				continue
			}
			ex.unsup("loop %d (block %d, %s) has no invariant", li.n, li.header.Index, li.header.Comment)
		}
	}
	if len(ex.unsupported) > 0 {
		return
	}
	// name locals
	n := 0
	for _, b := range ex.fn.Blocks {
		for _, in := range b.Instrs {
			if a, ok := in.(*ssa.Alloc); ok {
				n++
				ex.locals[a] = fmt.Sprintf("L_%d_%s", n, sanitize(a.Comment))
			}
		}
	}
	blocks := ex.order()
	ex.reach[ex.fn.Blocks[0]] = "true"
	for _, b := range blocks {
		if b == ex.fn.Recover {
			continue
		}
		ex.execBlock(b)
		if len(ex.unsupported) > 0 {
			return
		}
	}
	ex.finishAbrupt()
}

// clauseTerm evaluates a clause function with named arguments.
func (ex *Exec) clauseTerm(cl *Clause, args map[string]Val, cur, old *State, asGoal bool) string {
	if cl.Fn == nil {
		ex.unsup("clause did not compile: %s", cl.Text)
		return "true"
	}
	env := ex.env
	var av []Val
	nb := len(cl.Bound)
	names := cl.Names
	var binders, ranges []string
	for i, nm := range names {
		if i >= len(names)-nb {
			// bound variable
			pt := cl.Fn.Params[i].Type()
			s := ex.e.sortOf(pt)
			if asGoal {
				c := ex.e.freshConst("sk_"+nm, s)
				ex.e.assume(ex.e.rangeAssume(c, pt))
				av = append(av, Val{T: c, S: s})
			} else {
				bn := ex.e.fresh("bv_" + nm)
				binders = append(binders, fmt.Sprintf("(%s %s)", bn, s))
				if r := ex.e.rangeAssume(bn, pt); r != "" {
					ranges = append(ranges, r)
				}
				av = append(av, Val{T: bn, S: s})
			}
			continue
		}
		v, ok := args[nm]
		if !ok {
			ex.unsup("clause %q: no value for %s", cl.Text, nm)
			return "true"
		}
		av = append(av, v)
	}
	if len(binders) > 0 {
		saved := env.quant
		savedSide := env.side
		env.quant = true
		r := env.evalPure(cl.Fn, av, nil, cur, old, 0)
		env.quant = saved
		env.side = savedSide
		body := r.T
		if len(ranges) > 0 {
			body = fmt.Sprintf("(=> (and %s) %s)", strings.Join(ranges, " "), body)
		}
		var bnames []string
		for _, b := range binders {
			bnames = append(bnames, strings.Fields(strings.Trim(b, "()"))[0])
		}
		if pats := autoPatterns(body, bnames); pats != "" {
			return fmt.Sprintf("(forall (%s) (! %s %s))", strings.Join(binders, " "), body, pats)
		}
		return fmt.Sprintf("(forall (%s) %s)", strings.Join(binders, " "), body)
	}
	r := env.evalPure(cl.Fn, av, nil, cur, old, 0)
	ex.flushFacts()
	if len(env.errs) > 0 {
		for _, er := range env.errs {
			ex.unsup("clause %q: %s", cl.Text, er)
		}
		env.errs = nil
	}
	return r.T
}

func (ex *Exec) execBlock(b *ssa.BasicBlock) {
	e := ex.e
	// entry state and reach condition
	li := ex.loops[b]
	if b.Index != 0 {
		var conds []string
		var states []*State
		var predIdx []int
		for i, p := range b.Preds {
			if ex.back[[2]int{p.Index, b.Index}] {
				continue
			}
			c, ok := ex.edge[[2]int{p.Index, b.Index}]
			if !ok {
				continue // unreachable predecessor
			}
			conds = append(conds, c)
			states = append(states, ex.exit[p])
			predIdx = append(predIdx, i)
		}
		if len(conds) == 0 {
			ex.reach[b] = "false"
			ex.exit[b] = ex.entry
			return
		}
		r := conds[0]
		if len(conds) > 1 {
			r = "(or " + strings.Join(conds, " ") + ")"
		}
		ex.reach[b] = e.define(fmt.Sprintf("reach_b%d", b.Index), "Bool", r)
		ex.st = mergeStates(e, conds, states)
		// phis
		for _, in := range b.Instrs {
			phi, ok := in.(*ssa.Phi)
			if !ok {
				break
			}
			acc := ex.get(phi.Edges[predIdx[len(predIdx)-1]])
			for k := len(predIdx) - 2; k >= 0; k-- {
				acc = ex.env.ite(conds[k], ex.get(phi.Edges[predIdx[k]]), acc)
			}
			if acc.T != "" && acc.Loc == nil && acc.Tup == nil && acc.Clo == nil {
				acc.T = e.define("phi_"+sanitize(phi.Name()), acc.S, acc.T)
			}
			ex.vals[phi] = acc
		}
	}
	ex.curBlock = b
	ex.realBlk = b
	if ex.blockStart == nil {
		ex.blockStart = map[string]int{}
	}
	if r := ex.reach[b]; r != "" && r != "true" {
		if _, ok := ex.blockStart[r]; !ok {
			ex.blockStart[r] = len(e.lines)
		}
	}
	if li != nil {
		ex.loopHead(li)
	}
	for _, in := range b.Instrs {
		if _, ok := in.(*ssa.Phi); ok {
			continue
		}
		ex.execInstr(in)
		ex.flushFacts()
		if len(ex.unsupported) > 0 {
			return
		}
	}
	ex.exit[b] = ex.st
	if ex.exitCut == nil {
		ex.exitCut = map[*ssa.BasicBlock]int{}
	}
	ex.exitCut[b] = len(e.lines)
	// back edges: invariants preserved
	for _, s := range b.Succs {
		if ex.back[[2]int{b.Index, s.Index}] {
			ex.loopBack(ex.loops[s], b)
		}
	}
}

// loopVars resolves the names an invariant mentions at a point of the loop.
func (ex *Exec) loopVars(li *loopInfo, phiVal func(*ssa.Phi) Val, st *State) map[string]Val {
	m := map[string]Val{}
	for k, v := range ex.params {
		m[k] = v
	}
	for _, p := range li.spec.Vars {
		found := false
		for _, in := range li.header.Instrs {
			phi, ok := in.(*ssa.Phi)
			if !ok {
				break
			}
			if phi.Comment == p.Name {
				m[p.Name] = phiVal(phi)
				found = true
				break
			}
		}
		if found {
			continue
		}
		// address-taken local
		for a := range ex.locals {
			if a.Comment == p.Name {
				if _, isS := isStruct(deref(a.Type())); !isS {
					if av, ok := ex.vals[a]; ok {
						m[p.Name] = ex.env.loadVal(st, av, deref(a.Type()))
						found = true
					}
				}
			}
		}
		if found {
			continue
		}
		// a variable that is not loop-carried: its value at the header is its reaching definition —
		// walk the dominator chain upwards from the header; in each block the last mention wins
		// (a DebugRef naming the variable, or the phi that merges it)
		var cand ssa.Value
		for b := li.header.Idom(); b != nil && cand == nil; b = b.Idom() {
			for k := len(b.Instrs) - 1; k >= 0 && cand == nil; k-- {
				switch in := b.Instrs[k].(type) {
				case *ssa.DebugRef:
					if id, ok := in.Expr.(interface{ String() string }); ok && !in.IsAddr && id.String() == p.Name {
						cand = in.X
					}
				case *ssa.Phi:
					if in.Comment == p.Name {
						cand = in
					}
				}
			}
		}
		if cand != nil {
			m[p.Name] = ex.get(cand)
			continue
		}
		if _, ok := m[p.Name]; !ok {
			var names []string
			for _, in := range li.header.Instrs {
				if phi, ok := in.(*ssa.Phi); ok {
					names = append(names, phi.Comment)
				}
			}
			ex.unsup("loop %d: cannot resolve variable %s (loop-carried variables here: %v)", li.n, p.Name, names)
		}
	}
	// check declared types
	return m
}

func valueBlock(v ssa.Value) *ssa.BasicBlock {
	if in, ok := v.(ssa.Instruction); ok {
		return in.Block()
	}
	return nil
}

func (ex *Exec) loopHead(li *loopInfo) {
	e := ex.e
	// 1. invariants hold on entry
	entryVars := ex.loopVars(li, func(p *ssa.Phi) Val { return ex.vals[p] }, ex.st)
	for i, cl := range li.spec.Invariants {
		lbl := cl.Label
		if lbl == "" {
			lbl = fmt.Sprintf("%d", i+1)
		}
		t := ex.clauseTerm(cl, entryVars, ex.st, ex.entry, true)
		ex.oblige(fmt.Sprintf("loop%d-establish", li.n), lbl, t, li.header.Instrs[0].Pos())
	}
	entryPhiVals := map[*ssa.Phi]Val{}
	for _, in := range li.header.Instrs {
		if phi, ok := in.(*ssa.Phi); ok {
			entryPhiVals[phi] = ex.vals[phi]
		} else {
			break
		}
	}
	// 2. havoc what the loop modifies
	vars, all := ex.modSet(li.body)
	if all {
		ex.st = ex.jsEffect(ex.st)
		for a, n := range ex.locals {
			if _, ok := e.hsort[n]; ok && (li.body[a.Block()] || vars[n]) {
				ex.st.havoc(n)
			}
		}
	} else {
		ex.st = ex.st.clone()
	}
	var names []string
	for v := range vars {
		names = append(names, v)
	}
	sort.Strings(names)
	for _, v := range names {
		if _, ok := e.hsort[v]; ok {
			ex.st.havoc(v)
		}
	}
	// the allocation sets only grow: what existed on entry still exists at the head of any iteration
	for _, an := range [][2]string{{"alloc", "Ref"}, {"allocA", "ArrRef"}} {
		if vars[an[0]] {
			cur, ent := ex.st.get(an[0]), ex.entry.get(an[0])
			if cur != ent {
				ex.assumeHere(fmt.Sprintf("(forall ((x %s)) (! (=> (select %s x) (select %s x)) :pattern ((select %s x))))", an[1], ent, cur, cur))
			}
		}
	}
	// 2a. the function's frame is an implicit loop invariant: what the assigns clause does not
	// mention is still as on entry (checked again on every back edge)
	if !all && ex.parent == nil {
		li.frameVars = ex.loopFrameVars(vars)
		ex.assumeLoopFrame(li.frameVars)
	}
	for _, in := range li.header.Instrs {
		phi, ok := in.(*ssa.Phi)
		if !ok {
			break
		}
		old := ex.vals[phi]
		if old.Loc != nil || old.Clo != nil || old.Tup != nil {
			ex.vals[phi] = ex.env.freshVal("lv_"+sanitize(phi.Comment), phi.Type())
			ex.flushFacts()
			continue
		}
		c := e.freshConst("lv_"+sanitize(phi.Comment), old.S)
		if old.S == "Str" && ex.parent == nil {
			// a string carried around the loop (typically the unread rest of an input): part of the
			// counterexample, and a candidate input for the replay
			e.assume(fmt.Sprintf("(and (>= (str_len %s) 0) (<= (str_len %s) 1099511627776))", c, c))
			ex.inputs = append(ex.inputs, fmt.Sprintf("(str_len %s)", c))
			for i := 0; i < 48; i++ {
				ex.inputs = append(ex.inputs, fmt.Sprintf("(str_at %s %d)", c, i))
			}
		}
		e.assume(e.rangeAssume(c, phi.Type()))
		if old.S == "Ref" {
			e.assume(fmt.Sprintf("(or (= %s nil) (select %s (rootref %s)))", c, ex.st.get("alloc"), c))
		}
		if old.S == "Slice" {
			// a slice value that exists here refers to an array that has been allocated (so a later
			// allocation is a different array)
			e.assume(fmt.Sprintf("(or (= (s.arr %s) nilarr) (select %s (s.arr %s)))", c, ex.st.get("allocA"), c))
		}
		ex.vals[phi] = Val{T: c, S: old.S}
	}
	// 2b. automatic invariants of monotone induction variables: a loop-carried integer whose every
	// back-edge value is itself plus (minus) a non-negative constant never drops below (rises above)
	// its initial value. Sound without overflow (64-bit counters; stated assumption).
	for _, in := range li.header.Instrs {
		phi, ok := in.(*ssa.Phi)
		if !ok {
			break
		}
		if !isInt(phi.Type()) {
			continue
		}
		if b, _ := intBits(phi.Type()); b != 64 {
			continue
		}
		dir := 0 // +1 increasing, -1 decreasing
		okAll := true
		var inits []string
		for i, p := range li.header.Preds {
			ed := phi.Edges[i]
			if !ex.back[[2]int{p.Index, li.header.Index}] {
				if iv, ok := entryPhiVals[phi]; ok {
					inits = append(inits, iv.T)
				}
				continue
			}
			bo, ok := ed.(*ssa.BinOp)
			if !ok || bo.X != ssa.Value(phi) {
				okAll = false
				break
			}
			c, ok := bo.Y.(*ssa.Const)
			if !ok || c.Value == nil {
				okAll = false
				break
			}
			cv, exact := constant.Int64Val(constant.ToInt(c.Value))
			if !exact || cv < 0 {
				okAll = false
				break
			}
			d := 0
			switch bo.Op {
			case token.ADD:
				d = 1
			case token.SUB:
				d = -1
			default:
				okAll = false
			}
			if dir != 0 && d != dir {
				okAll = false
			}
			dir = d
		}
		if !okAll || dir == 0 || len(inits) != 1 {
			continue
		}
		op := ">="
		if dir < 0 {
			op = "<="
		}
		ex.assumeHere(fmt.Sprintf("(%s %s %s)", op, ex.vals[phi].T, inits[0]))
		e.note("automatic invariant for monotone loop counters (no 64-bit overflow assumed)")
	}
	// 3. assume invariants
	li.headState = ex.st.clone()
	li.headVars = ex.loopVars(li, func(p *ssa.Phi) Val { return ex.vals[p] }, ex.st)
	for _, cl := range li.spec.Invariants {
		ex.assumeHere(ex.clauseTerm(cl, li.headVars, ex.st, ex.entry, false))
	}
	if li.spec.Decreases != nil {
		li.measure = ex.clauseTerm(li.spec.Decreases, li.headVars, ex.st, ex.entry, true)
	}
}

func (ex *Exec) loopBack(li *loopInfo, from *ssa.BasicBlock) {
	c, ok := ex.edge[[2]int{from.Index, li.header.Index}]
	if !ok {
		return
	}
	// index of from among header preds
	idx := -1
	for i, p := range li.header.Preds {
		if p == from {
			idx = i
		}
	}
	saved := ex.reach[from]
	ex.reach[from] = c
	vars := ex.loopVars(li, func(p *ssa.Phi) Val { return ex.get(p.Edges[idx]) }, ex.st)
	for i, cl := range li.spec.Invariants {
		lbl := cl.Label
		if lbl == "" {
			lbl = fmt.Sprintf("%d", i+1)
		}
		t := ex.clauseTerm(cl, vars, ex.st, ex.entry, true)
		ex.oblige(fmt.Sprintf("loop%d-preserve", li.n), lbl, t, from.Instrs[len(from.Instrs)-1].Pos())
	}
	ex.checkLoopFrame(li.frameVars, li.n, from.Instrs[len(from.Instrs)-1].Pos())
	if li.spec.Decreases != nil {
		m := ex.clauseTerm(li.spec.Decreases, vars, ex.st, ex.entry, true)
		ex.oblige(fmt.Sprintf("loop%d-decreases", li.n), "measure", fmt.Sprintf("(and (>= %s 0) (< %s %s))", li.measure, m, li.measure), from.Instrs[len(from.Instrs)-1].Pos())
	}
	ex.reach[from] = saved
}

// check: an implicit runtime check. In safe functions an obligation, otherwise an assumption
// (the path continues only if the check passed).
func (ex *Exec) check(kind, cond string, p token.Pos, what string) {
	// "safe": every implicit runtime check is an obligation; "bounds": only the index, slice and
	// allocation-size checks (nil dereferences and type assertions are assumed to pass)
	if ex.con != nil && (ex.con.Flags["safe"] || ex.con.Flags["bounds"] && kind != "nil" && kind != "typeassert") {
		lbl := kind + ":" + what
		if len(lbl) > 70 {
			lbl = lbl[:70]
		}
		lbl = strings.Map(func(r rune) rune {
			if r == ' ' || r == '\n' || r == '\t' {
				return -1
			}
			return r
		}, lbl)
		ex.oblige("safe", lbl, cond, p)
		return
	}
	ex.assumeHere(cond)
}

func (ex *Exec) srcText(v ssa.Value) string {
	// best-effort short description of an SSA value for obligation labels
	switch v := v.(type) {
	case *ssa.Parameter:
		return v.Name()
	case *ssa.FieldAddr:
		s, _ := isStruct(deref(v.X.Type()))
		return ex.srcText(v.X) + "." + s.Field(v.Field).Name()
	case *ssa.UnOp:
		if v.Op == token.MUL {
			return ex.srcText(v.X)
		}
	case *ssa.Phi:
		return v.Comment
	case *ssa.Const:
		return v.Value.String()
	case *ssa.BinOp:
		return ex.srcText(v.X) + v.Op.String() + ex.srcText(v.Y)
	case *ssa.Convert:
		return ex.srcText(v.X)
	case *ssa.ChangeType:
		return ex.srcText(v.X)
	}
	return "_"
}

func (ex *Exec) execInstr(in ssa.Instruction) {
	e := ex.e
	env := ex.env
	switch in := in.(type) {
	case *ssa.DebugRef:
		return
	case *ssa.Alloc:
		t := deref(in.Type())
		if _, ok := isStruct(t); ok && !in.Heap {
			// a struct local whose address does not escape: a local variable of datatype sort
			name := ex.locals[in]
			e.regHeap(name, e.sortOf(t))
			ex.st.set(name, e.zeroValue(t))
			ex.vals[in] = Val{Loc: &Loc{Kind: LLocal, Heap: name, Typ: t}, S: "Ref"}
			return
		}
		if _, ok := isStruct(t); ok {
			r := ex.newRef("new_" + sanitize(in.Comment))
			e.storeStruct(ex.st, t, r, e.zeroValue(t))
			ex.vals[in] = Val{T: r, S: "Ref"}
			return
		}
		if at, ok := t.Underlying().(*types.Array); ok {
			a := ex.newArr("arr_" + sanitize(in.Comment))
			if _, isS := isStruct(at.Elem()); !isS {
				h := e.elemHeap(at.Elem())
				ex.st.set(h, fmt.Sprintf("(store %s %s %s)", ex.st.get(h), a, e.constArray(e.sortOf(at.Elem()), e.zeroValue(at.Elem()))))
			}
			ex.vals[in] = Val{Loc: &Loc{Kind: LArr, Base: a, Typ: t}, S: "Ref"}
			return
		}
		name := ex.locals[in]
		e.regHeap(name, e.sortOf(t))
		ex.st.set(name, e.zeroValue(t))
		ex.vals[in] = Val{Loc: &Loc{Kind: LLocal, Heap: name, Typ: t}, S: "Ref"}
	case *ssa.Store:
		ex.guardCheck(in.Addr, "write", in.Pos())
		addr := ex.get(in.Addr)
		v := ex.get(in.Val)
		t := in.Val.Type()
		if v.Loc != nil {
			v = env.materialize(v)
		}
		if v.Clo != nil {
			v = Val{T: env.closureTerm(v.Clo), S: "Fn"}
		}
		if addr.Loc != nil {
			e.store(ex.st, addr.Loc, v.T)
			return
		}
		ex.check("nil", fmt.Sprintf("(not (= %s nil))", addr.T), in.Pos(), ex.srcText(in.Addr))
		if _, ok := isStruct(t); ok {
			e.storeStruct(ex.st, t, addr.T, v.T)
			return
		}
		// a store through an opaque pointer may alias any location of that Go type (and, by type
		// safety, no other): every field and element heap of that type is havocked
		for _, hv := range ex.heapsOfType(t) {
			ex.st.havoc(hv)
		}
		h := e.cellHeap(t)
		ex.st.set(h, fmt.Sprintf("(store %s %s %s)", ex.st.get(h), addr.T, v.T))
	case *ssa.MapUpdate:
		m := ex.get(in.Map)
		k := ex.get(in.Key)
		v := ex.get(in.Value)
		if v.Loc != nil {
			v = env.materialize(v)
		}
		if v.Clo != nil {
			v = Val{T: env.closureTerm(v.Clo), S: "Fn"}
		}
		mt := in.Map.Type().Underlying().(*types.Map)
		dom, val := e.mapHeaps(mt)
		ex.st.set(dom, fmt.Sprintf("(store %s %s (store (select %s %s) %s true))", ex.st.get(dom), m.T, ex.st.get(dom), m.T, k.T))
		ex.st.set(val, fmt.Sprintf("(store %s %s (store (select %s %s) %s %s))", ex.st.get(val), m.T, ex.st.get(val), m.T, k.T, v.T))
	case *ssa.MakeSlice:
		a := ex.newArr("mk")
		ln := ex.get(in.Len)
		cp := ex.get(in.Cap)
		et := in.Type().Underlying().(*types.Slice).Elem()
		// the runtime's makeslice check: 0 <= len <= cap and cap*elemsize <= maxAlloc (2^48 on 64-bit)
		esz := types.SizesFor("gc", "amd64").Sizeof(et)
		if esz < 1 {
			esz = 1
		}
		okc := fmt.Sprintf("(and (<= 0 %s) (<= %s %s) (<= (* %s %d) 281474976710656))", ln.T, ln.T, cp.T, cp.T, esz)
		if ex.abruptMode() && !(ex.con != nil && (ex.con.Flags["safe"] || ex.con.Flags["bounds"])) {
			// in a function that handles panics the failed check is a path of its own
			q := e.define("mkfail", "Bool", "(not "+okc+")")
			cond := and2(ex.curCond(), q)
			pv := ex.freshPayload()
			ex.e.assume(fmt.Sprintf("(=> %s ((_ is box_other) %s))", cond, pv.T))
			ex.addAbrupt(cond, ex.st, pv, in.Pos())
			ex.continueWithout(q)
		} else {
			ex.check("makeslice", okc, in.Pos(), "len")
		}
		if _, isS := isStruct(et); !isS {
			h := e.elemHeap(et)
			ex.st.set(h, fmt.Sprintf("(store %s %s %s)", ex.st.get(h), a, e.constArray(e.sortOf(et), e.zeroValue(et))))
		} else {
			ex.zeroStructElems(et, a)
		}
		ex.vals[in] = Val{T: e.define("mkslice", "Slice", fmt.Sprintf("(mk-slice %s 0 %s %s)", a, ln.T, cp.T)), S: "Slice"}
	case *ssa.MakeMap:
		r := ex.newRef("map")
		mt := in.Type().Underlying().(*types.Map)
		dom, _ := e.mapHeaps(mt)
		ex.st.set(dom, fmt.Sprintf("(store %s %s ((as const (Array %s Bool)) false))", ex.st.get(dom), r, e.sortOf(mt.Key())))
		ex.vals[in] = Val{T: r, S: "Ref"}
	case *ssa.Call:
		ex.call(in)
	case *ssa.If:
		c := ex.get(in.Cond)
		b := in.Block()
		r := ex.reach[b]
		if lit := trivialBool(e, c.T); lit != "" && ex.parent != nil && b.Succs[0] != b.Succs[1] {
			// a branch of an inlined deferred function decided by what recover() returned
			if lit == "true" {
				ex.edge[[2]int{b.Index, b.Succs[0].Index}] = r
			} else {
				ex.edge[[2]int{b.Index, b.Succs[1].Index}] = r
			}
			return
		}
		ct := e.define(fmt.Sprintf("cond_b%d", b.Index), "Bool", c.T)
		and := func(a, b string) string {
			if a == "true" {
				return b
			}
			return fmt.Sprintf("(and %s %s)", a, b)
		}
		if b.Succs[0] == b.Succs[1] {
			ex.edge[[2]int{b.Index, b.Succs[0].Index}] = r
		} else {
			ex.edge[[2]int{b.Index, b.Succs[0].Index}] = and(r, ct)
			ex.edge[[2]int{b.Index, b.Succs[1].Index}] = and(r, "(not "+ct+")")
		}
	case *ssa.Jump:
		b := in.Block()
		ex.edge[[2]int{b.Index, b.Succs[0].Index}] = ex.reach[b]
	case *ssa.Return:
		if ex.inl != nil {
			var vals []Val
			for _, r := range in.Results {
				vals = append(vals, ex.get(r))
			}
			ex.inl.normals = append(ex.inl.normals, outcome{cond: ex.curCond(), st: ex.st, rets: vals})
			return
		}
		ex.doReturn(in)
	case *ssa.Panic:
		ex.doPanic(in)
		if ex.abruptMode() {
			pv := ex.get(in.X)
			ex.addAbrupt(ex.curCond(), ex.st, pv, in.Pos())
		}
	case *ssa.RunDefers:
		if ex.sweep {
			ex.st = ex.jsEffect(ex.st)
			return
		}
		ex.runDefersNormal(in)
	case *ssa.Defer:
		if ex.sweep {
			ex.deferred = append(ex.deferred, in)
			return
		}
		// the defer must be registered on every path that reaches the rest of the function
		reach := map[*ssa.BasicBlock]bool{}
		stack := []*ssa.BasicBlock{in.Block()}
		for len(stack) > 0 {
			x := stack[len(stack)-1]
			stack = stack[:len(stack)-1]
			for _, sc := range x.Succs {
				if !reach[sc] {
					reach[sc] = true
					stack = append(stack, sc)
				}
			}
		}
		for b := range reach {
			if b != ex.fn.Recover && !in.Block().Dominates(b) {
				ex.unsup("conditionally executed defer is not supported")
				return
			}
		}
		ex.deferred = append(ex.deferred, in)
	case *ssa.Go, *ssa.Send, *ssa.Select:
		if ex.sweep {
			ex.st = ex.jsEffect(ex.st)
			if v, ok := in.(ssa.Value); ok {
				ex.vals[v] = env.freshVal("sel", v.Type())
			}
			return
		}
		ex.unsup("goroutines/channels are outside the verified subset")
	case *ssa.Range, *ssa.Next:
		if ex.sweep {
			ex.vals[in.(ssa.Value)] = env.freshVal("rng", in.(ssa.Value).Type())
			return
		}
		ex.unsup("range over string/map is not supported yet")
	default:
		v, isVal := in.(ssa.Value)
		if !isVal {
			ex.unsup("unsupported instruction %T", in)
			return
		}
		ex.preChecks(in)
		r, ok := env.evalInstr(in, ex.get, ex.st)
		if !ok {
			ex.unsup("unsupported instruction %s (%T)", in.String(), in)
			return
		}
		if r.T != "" && r.Loc == nil && r.Tup == nil && r.Clo == nil && !isAtom(r.T) {
			r.T = e.define("v_"+sanitize(v.Name()), r.S, r.T)
		}
		ex.vals[v] = r
		ex.postChecks(in, r)
		if mi, ok := in.(*ssa.MakeInterface); ok {
			if inv := ex.g.createInv[typeKey(mi.X.Type())]; inv != nil {
				t := env.evalPure(inv, []Val{r}, nil, ex.st, ex.entry, 1)
				ex.flushFacts()
				ex.reportEnvErrs("createinv")
				ex.oblige("create", typeKey(mi.X.Type())+":"+ex.srcText(mi.X), t.T, in.Pos())
			}
		}
	}
}

func (ex *Exec) newRef(prefix string) string {
	e := ex.e
	r := e.freshConst(prefix, "Ref")
	e.assume(fmt.Sprintf("(and ((_ is obj) %s) (not (select %s %s)))", r, ex.st.get("alloc"), r))
	ex.st.set("alloc", fmt.Sprintf("(store %s %s true)", ex.st.get("alloc"), r))
	// nothing points to a fresh object yet (for every pointer-valued field known so far)
	var hs []string
	for h, srt := range e.hsort {
		if srt == "(Array Ref Ref)" {
			hs = append(hs, h)
		}
	}
	sort.Strings(hs)
	for _, h := range hs {
		cur := ex.st.get(h)
		e.assume(fmt.Sprintf("(forall ((x Ref)) (! (not (= (select %s x) %s)) :pattern ((select %s x))))", cur, r, cur))
	}
	return r
}

func (ex *Exec) newArr(prefix string) string {
	e := ex.e
	r := e.freshConst(prefix, "ArrRef")
	e.assume(fmt.Sprintf("(and (not (= %s nilarr)) (not (select %s %s)))", r, ex.st.get("allocA"), r))
	ex.st.set("allocA", fmt.Sprintf("(store %s %s true)", ex.st.get("allocA"), r))
	return r
}

func (ex *Exec) zeroStructElems(et types.Type, a string) {
	e := ex.e
	s, _ := isStruct(et)
	for i := 0; i < s.NumFields(); i++ {
		ft := s.Field(i).Type()
		if _, ok := isStruct(ft); ok {
			e.note("make([]struct) with nested struct fields: nested fields not zero-initialised in the model")
			continue
		}
		h, _ := e.fieldHeap(et, i)
		nh := e.freshConst(h, e.hsort[h])
		oh := ex.st.get(h)
		e.assume(fmt.Sprintf("(forall ((r Ref)) (! (= (select %s r) (ite (and ((_ is elemref) r) (= (elemref_arr r) %s)) %s (select %s r))) :pattern ((select %s r))))", nh, a, e.zeroValue(ft), oh, nh))
		ex.st.heap[h] = nh
	}
}

// preChecks: runtime checks that precede the evaluation of an instruction.
// guardCheck: an access to a field declared `guarded` needs its mutex held.
func (ex *Exec) guardCheck(addr ssa.Value, what string, p token.Pos) {
	fa, ok := addr.(*ssa.FieldAddr)
	if !ok || len(ex.g.guarded) == 0 {
		return
	}
	st := deref(fa.X.Type())
	s, isS := isStruct(st)
	if !isS {
		return
	}
	h, _ := ex.e.fieldHeap(st, fa.Field)
	gd, ok := ex.g.guarded[h]
	if !ok {
		return
	}
	base := ex.get(fa.X)
	if base.Loc != nil {
		base = ex.env.materialize(base)
	}
	for i := 0; i < s.NumFields(); i++ {
		if s.Field(i).Name() == gd[1] {
			ex.e.regHeap("lockheld", "(Array Ref Bool)")
			lock := ex.e.subRef(st, i, base.T)
			ex.oblige("guard", what+":"+s.Field(fa.Field).Name()+"-needs-"+gd[1], fmt.Sprintf("(select %s %s)", ex.st.get("lockheld"), lock), p)
		}
	}
}

func (ex *Exec) preChecks(in ssa.Instruction) {
	if u, ok := in.(*ssa.UnOp); ok && u.Op == token.MUL {
		ex.guardCheck(u.X, "read", in.Pos())
	}
	switch in := in.(type) {
	case *ssa.FieldAddr:
		x := ex.get(in.X)
		if x.Loc == nil {
			ex.check("nil", fmt.Sprintf("(not (= %s nil))", x.T), in.Pos(), ex.srcText(in.X))
		}
	case *ssa.IndexAddr:
		x := ex.get(in.X)
		i := ex.get(in.Index)
		switch xt := in.X.Type().Underlying().(type) {
		case *types.Slice:
			ex.check("index", fmt.Sprintf("(and (<= 0 %s) (< %s (s.len %s)))", i.T, i.T, x.T), in.Pos(), ex.srcText(in.X)+"["+ex.srcText(in.Index)+"]")
		case *types.Pointer:
			at := xt.Elem().Underlying().(*types.Array)
			ex.check("index", fmt.Sprintf("(and (<= 0 %s) (< %s %d))", i.T, i.T, at.Len()), in.Pos(), ex.srcText(in.X)+"["+ex.srcText(in.Index)+"]")
		}
	case *ssa.Index:
		x := ex.get(in.X)
		i := ex.get(in.Index)
		if isString(in.X.Type()) {
			ex.check("index", fmt.Sprintf("(and (<= 0 %s) (< %s (str_len %s)))", i.T, i.T, x.T), in.Pos(), ex.srcText(in.X)+"["+ex.srcText(in.Index)+"]")
		} else if at, ok := in.X.Type().Underlying().(*types.Array); ok {
			ex.check("index", fmt.Sprintf("(and (<= 0 %s) (< %s %d))", i.T, i.T, at.Len()), in.Pos(), "array")
		}
	case *ssa.Lookup:
		if isString(in.X.Type()) {
			x := ex.get(in.X)
			i := ex.get(in.Index)
			ex.check("index", fmt.Sprintf("(and (<= 0 %s) (< %s (str_len %s)))", i.T, i.T, x.T), in.Pos(), ex.srcText(in.X)+"["+ex.srcText(in.Index)+"]")
		}
	case *ssa.Slice:
		x := ex.get(in.X)
		lo := "0"
		if in.Low != nil {
			lo = ex.get(in.Low).T
		}
		switch in.X.Type().Underlying().(type) {
		case *types.Slice:
			hi := fmt.Sprintf("(s.len %s)", x.T)
			if in.High != nil {
				hi = ex.get(in.High).T
			}
			mx := fmt.Sprintf("(s.cap %s)", x.T)
			if in.Max != nil {
				mx = ex.get(in.Max).T
			}
			ex.check("slice", fmt.Sprintf("(and (<= 0 %s) (<= %s %s) (<= %s %s) (<= %s (s.cap %s)))", lo, lo, hi, hi, mx, mx, x.T), in.Pos(), ex.srcText(in.X))
		case *types.Basic:
			hi := fmt.Sprintf("(str_len %s)", x.T)
			if in.High != nil {
				hi = ex.get(in.High).T
			}
			ex.check("slice", fmt.Sprintf("(and (<= 0 %s) (<= %s %s) (<= %s (str_len %s)))", lo, lo, hi, hi, x.T), in.Pos(), ex.srcText(in.X))
		}
	case *ssa.BinOp:
		if (in.Op == token.QUO || in.Op == token.REM) && isInt(in.X.Type()) {
			ex.check("divzero", fmt.Sprintf("(not (= %s 0))", ex.get(in.Y).T), in.Pos(), ex.srcText(in.Y))
		}
		if ex.con != nil && ex.con.Flags["overflow-checked"] && isInt(in.Type()) {
			bits, signed := intBits(in.Type())
			if bits == 64 && signed && (in.Op == token.ADD || in.Op == token.SUB || in.Op == token.MUL) {
				op := map[token.Token]string{token.ADD: "+", token.SUB: "-", token.MUL: "*"}[in.Op]
				t := fmt.Sprintf("(%s %s %s)", op, ex.get(in.X).T, ex.get(in.Y).T)
				ex.oblige("overflow", ex.srcText(in), fmt.Sprintf("(and (<= (- 9223372036854775808) %s) (<= %s 9223372036854775807))", t, t), in.Pos())
			}
		}
	case *ssa.UnOp:
		if in.Op == token.MUL {
			x := ex.get(in.X)
			if x.Loc == nil {
				ex.check("nil", fmt.Sprintf("(not (= %s nil))", x.T), in.Pos(), ex.srcText(in.X))
			}
		}
	case *ssa.TypeAssert:
		if !in.CommaOk {
			x := ex.get(in.X)
			var ok string
			if isIface(in.AssertedType) {
				ok = ex.e.implementsTerm(fmt.Sprintf("(tagof %s)", x.T), in.AssertedType, false)
			} else {
				ok = fmt.Sprintf("(= (tagof %s) %d)", x.T, ex.e.tagOf(in.AssertedType))
			}
			ex.check("typeassert", ok, in.Pos(), ex.srcText(in.X))
		}
	}
}

func (ex *Exec) postChecks(in ssa.Instruction, r Val) {
	switch in := in.(type) {
	case *ssa.UnOp:
		if in.Op == token.MUL {
			ex.rely(r, in.Type())
		}
	case *ssa.Lookup:
		ex.rely(r, in.Type())
	case *ssa.Field:
		ex.rely(r, in.Type())
	case *ssa.TypeAssert:
		if !in.CommaOk {
			ex.relyInvOnly(r, in.Type())
		}
	case *ssa.Extract:
		if _, ok := in.Tuple.(*ssa.TypeAssert); ok && in.Index == 0 {
			ex.relyInvOnly(r, in.Type())
		}
	}
	// loaded references are allocated objects (well-formed heap)
	if u, ok := in.(*ssa.UnOp); ok && u.Op == token.MUL && r.S == "Ref" && r.T != "" {
		ex.e.assume(fmt.Sprintf("(or (= %s nil) (select %s (rootref %s)))", r.T, ex.st.get("alloc"), r.T))
	}
	if u, ok := in.(*ssa.UnOp); ok && u.Op == token.MUL && r.S == "Slice" && r.T != "" {
		ex.e.assume(fmt.Sprintf("(or (= (s.arr %s) nilarr) (select %s (s.arr %s)))", r.T, ex.st.get("allocA"), r.T))
	}
}

func (ex *Exec) resultMap(vals []Val) map[string]Val {
	m := map[string]Val{}
	for k, v := range ex.params {
		m[k] = v
	}
	if ex.con != nil {
		for i, r := range ex.con.Results {
			if i < len(vals) {
				m[r.Name] = vals[i]
			}
		}
		for _, c := range ex.con.Captures {
			if v, ok := ex.captured[c[0]]; ok {
				m[c[0]] = v
			} else {
				// the call did not happen on this path: unconstrained
				for _, cl := range append(append([]*Clause{}, ex.con.Ensures...), ex.con.EnsuresPanic...) {
					if cl.Fn == nil {
						continue
					}
					for i, nm := range cl.Names {
						if nm == c[0] {
							m[c[0]] = ex.env.freshVal("cap_"+c[0], cl.Fn.Params[i].Type())
						}
					}
					if _, ok := m[c[0]]; ok {
						break
					}
				}
				ex.flushFacts()
			}
		}
	}
	return m
}

// doReturn: postconditions and frame at a return. A return block that is a pure join point (only
// phis before the return) is checked once per incoming path, with that path's own state, so that
// no obligation mentions an ite-merged heap (quantifier instantiation does not see through ite).
func (ex *Exec) doReturn(in *ssa.Return) {
	if ex.con == nil {
		return
	}
	b := in.Block()
	pure := len(b.Preds) > 1 && ex.loops[b] == nil
	for _, x := range b.Instrs {
		switch x.(type) {
		case *ssa.Phi, *ssa.DebugRef, *ssa.Return:
		default:
			pure = false
		}
	}
	if pure && !ex.splitting {
		savedSt, savedReach := ex.st, ex.reach[b]
		savedVals := map[*ssa.Phi]Val{}
		ex.splitting = true
		for i, p := range b.Preds {
			c, ok := ex.edge[[2]int{p.Index, b.Index}]
			if !ok || ex.back[[2]int{p.Index, b.Index}] {
				continue
			}
			ex.st = ex.exit[p].clone()
			ex.reach[b] = c
			if ex.blockStart == nil {
				ex.blockStart = map[string]int{}
			}
			if _, seen := ex.blockStart[c]; !seen {
				if cut, ok := ex.exitCut[p]; ok {
					ex.blockStart[c] = cut
				}
			}
			for _, x := range b.Instrs {
				if phi, ok := x.(*ssa.Phi); ok {
					if _, done := savedVals[phi]; !done {
						savedVals[phi] = ex.vals[phi]
					}
					ex.vals[phi] = ex.get(phi.Edges[i])
				}
			}
			ex.doReturn(in)
		}
		ex.splitting = false
		ex.st, ex.reach[b] = savedSt, savedReach
		for phi, v := range savedVals {
			ex.vals[phi] = v
		}
		return
	}
	var vals []Val
	for _, r := range in.Results {
		v := ex.get(r)
		if v.Clo != nil {
			v = Val{T: ex.env.closureTerm(v.Clo), S: "Fn"}
		}
		vals = append(vals, v)
	}
	ex.ensuresAtBlock(vals, in.Pos(), in.Block())
}

// ensuresAt: the ordinary postconditions with the given results in the current state.
func (ex *Exec) ensuresAt(vals []Val, p token.Pos) {
	ex.ensuresAtBlock(vals, p, nil)
}

func (ex *Exec) ensuresAtBlock(vals []Val, inPos token.Pos, blk *ssa.BasicBlock) {
	m := ex.resultMap(vals)
	if len(ex.con.ExitVars) > 0 && blk == nil {
		for _, p := range ex.con.ExitVars {
			for _, cl := range ex.con.Ensures {
				if cl.Fn == nil {
					continue
				}
				for i, nm := range cl.Names {
					if nm == p.Name {
						m[p.Name] = ex.env.freshVal("exitvar_"+p.Name, cl.Fn.Params[i].Type())
					}
				}
				if _, ok := m[p.Name]; ok {
					break
				}
			}
			ex.flushFacts()
		}
	}
	if len(ex.con.ExitVars) > 0 && blk != nil {
		b := blk
		pos := len(b.Instrs) - 1
		for _, p := range ex.con.ExitVars {
			if v := ex.reachingDef(p.Name, b, pos); v != nil {
				m[p.Name] = ex.get(v)
			} else if val, ok := ex.exitVarVal(p.Name); ok {
				// e.g. the recover block, which no block dominates
				m[p.Name] = val
			} else {
				// not defined on the way to this return: unconstrained
				for _, cl := range ex.con.Ensures {
					if cl.Fn == nil {
						continue
					}
					for i, nm := range cl.Names {
						if nm == p.Name {
							m[p.Name] = ex.env.freshVal("exitvar_"+p.Name, cl.Fn.Params[i].Type())
						}
					}
					if _, ok := m[p.Name]; ok {
						break
					}
				}
				ex.flushFacts()
			}
		}
	}
	for i, cl := range ex.con.Ensures {
		if cl.Assumed {
			continue
		}
		lbl := cl.Label
		if lbl == "" {
			lbl = fmt.Sprintf("%d", i+1)
		}
		t := ex.clauseTerm(cl, m, ex.st, ex.entry, true)
		ex.oblige("ensures", lbl, t, inPos)
		ex.obligs[len(ex.obligs)-1].Clause = cl
	}
	ex.frameCheck(inPos)
}

func (ex *Exec) doPanic(in *ssa.Panic) {
	if ex.con == nil || len(ex.con.EnsuresPanic) == 0 {
		if ex.con != nil && ex.con.Flags["nopanic"] {
			ex.oblige("nopanic", "explicit-panic", "false", in.Pos())
		}
		return
	}
	m := ex.resultMap(nil)
	m["panicValue"] = ex.get(in.X)
	for i, cl := range ex.con.EnsuresPanic {
		lbl := cl.Label
		if lbl == "" {
			lbl = fmt.Sprintf("%d", i+1)
		}
		t := ex.clauseTerm(cl, m, ex.st, ex.entry, true)
		ex.oblige("ensures_panic", lbl, t, in.Pos())
		ex.obligs[len(ex.obligs)-1].Clause = cl
	}
}

// heapsOfType: every heap variable (struct field or slice element) whose content has Go type t.
func (ex *Exec) heapsOfType(t types.Type) []string {
	e := ex.e
	seen := map[string]bool{}
	var out []string
	add := func(h string) {
		if !seen[h] {
			seen[h] = true
			out = append(out, h)
		}
	}
	var visit func(st types.Type, depth int)
	visit = func(st types.Type, depth int) {
		s, ok := isStruct(st)
		if !ok || depth > 3 {
			return
		}
		for i := 0; i < s.NumFields(); i++ {
			ft := s.Field(i).Type()
			if _, nested := isStruct(ft); nested {
				visit(ft, depth+1)
				continue
			}
			if types.Identical(ft, t) {
				h, _ := e.fieldHeap(st, i)
				add(h)
			}
		}
	}
	for _, c := range ex.g.concreteTypes {
		if _, isPtr := c.(*types.Pointer); isPtr {
			continue
		}
		visit(c, 0)
	}
	add(e.elemHeap(t))
	sort.Strings(out)
	return out
}

var payloadNilRe = regexp.MustCompile(`^(\(not )?\(= panicv![0-9]+ nilbox\)\)?$`)

// trivialBool decides the few closed conditions that arise from recover() == nil / != nil.
func trivialBool(e *Emitter, t string) string {
	t = strings.TrimSpace(t)
	for i := 0; i < 4; i++ {
		if d, ok := e.defs[t]; ok {
			t = d
		}
	}
	switch t {
	case "true", "false":
		return t
	case "(= nilbox nilbox)":
		return "true"
	case "(not (= nilbox nilbox))":
		return "false"
	}
	// a payload constant (freshPayload) is never nil
	if m := payloadNilRe.FindStringSubmatch(t); m != nil {
		if m[1] != "" {
			return "true" // (not (= panicv nilbox))
		}
		return "false"
	}
	return ""
}

// clauseTermAll: a clause over an observed object, universally quantified over that object.
func (ex *Exec) clauseTermAll(cl *Clause, cur, old *State) string {
	if cl.Fn == nil || len(cl.Names) == 0 || cl.Names[0] != cl.ObsName {
		return ""
	}
	env := ex.env
	nb := len(cl.Bound)
	var av []Val
	var binders, ranges, bnames []string
	for i, nm := range cl.Names {
		pt := cl.Fn.Params[i].Type()
		s := ex.e.sortOf(pt)
		if i == 0 || i >= len(cl.Names)-nb {
			bn := ex.e.fresh("bv_" + nm)
			binders = append(binders, fmt.Sprintf("(%s %s)", bn, s))
			bnames = append(bnames, bn)
			if r := ex.e.rangeAssume(bn, pt); r != "" {
				ranges = append(ranges, r)
			}
			if i == 0 {
				ranges = append(ranges, fmt.Sprintf("(not (= %s nil))", bn))
			}
			av = append(av, Val{T: bn, S: s})
			continue
		}
		return "" // other free names: not supported here
	}
	saved, savedSide := env.quant, env.side
	env.quant = true
	r := env.evalPure(cl.Fn, av, nil, cur, old, 0)
	env.quant, env.side = saved, savedSide
	if len(env.errs) > 0 {
		env.errs = nil
		return ""
	}
	body := r.T
	if len(ranges) > 0 {
		body = fmt.Sprintf("(=> (and %s) %s)", strings.Join(ranges, " "), body)
	}
	if pats := autoPatterns(body, bnames); pats != "" {
		return fmt.Sprintf("(forall (%s) (! %s %s))", strings.Join(binders, " "), body, pats)
	}
	return fmt.Sprintf("(forall (%s) %s)", strings.Join(binders, " "), body)
}

func (ex *Exec) hasVal(v ssa.Value) bool {
	_, ok := ex.vals[v]
	return ok
}
