package main

import (
	"fmt"
	"golang.org/x/tools/go/packages"
	"golang.org/x/tools/go/ssa"
	"golang.org/x/tools/go/ssa/ssautil"
)

func main() {
	cfg := &packages.Config{Mode: packages.LoadAllSyntax, Dir: "/repo", BuildFlags: []string{"-tags=verif"}}
	pkgs, err := packages.Load(cfg, ".")
	if err != nil { panic(err) }
	prog, sp := ssautil.AllPackages(pkgs, ssa.InstantiateGenerics|ssa.GlobalDebug)
	prog.Build()
	fmt.Println(len(sp), sp[0].Pkg.Path())
}
