package main

import (
	"flag"
	"fmt"
	"os"
	"runtime"
	"sort"
	"strings"
	"sync"

	"golang.org/x/tools/go/ssa"
)

// FuncResult is the outcome of generating VCs for one function.
type FuncResult struct {
	Name        string
	Con         *Contract
	Ex          *Exec
	Obligs      []*Oblig
	Unsupported []string
	Notes       []string
	Pre         string
	PreExact    string
}

func (g *Gen) newExec(fn *ssa.Function, con *Contract) *Exec {
	e := newEmitter(g)
	env := &Env{e: e, g: g}
	if con != nil && con.Flags["wrap64"] {
		env.wrap64 = true
	}
	return &Exec{g: g, e: e, env: env, fn: fn, con: con, vals: map[ssa.Value]Val{}, reach: map[*ssa.BasicBlock]string{},
		exit: map[*ssa.BasicBlock]*State{}, edge: map[[2]int]string{}, locals: map[*ssa.Alloc]string{}, callN: map[string]int{}, safeN: map[string]int{}}
}

// cmdSweep: zero-annotation sweep of every function that creates a value of a type with a
// creation invariant (createinv): which creation sites are provably canonical without contracts?
func cmdSweep(args []string) {
	fs := flag.NewFlagSet("sweep", flag.ExitOnError)
	repo := fs.String("repo", "/repo", "repository root")
	timeout := fs.Int("timeout", 10, "per-obligation timeout (s)")
	only := fs.String("func", "", "substring filter")
	sprop := fs.String("property", "", "sweep call sites of this property's sweep-callers contracts")
	sdump := fs.String("dump", "", "keep SMT files here")
	snotes := fs.Bool("notes", false, "print abstraction notes")
	fs.Parse(args)
	g, err := loadAll(*repo)
	if err != nil {
		fmt.Fprintln(os.Stderr, "CANNOT-CHECK:", err)
		os.Exit(2)
	}
	frs := g.verifyAll(g.sweepContracts(*only, *sprop, *sprop == "" || *sprop == "C05"))
	dir, _ := os.MkdirTemp("", "gvc-smt-")
	if *sdump != "" {
		dir = *sdump
		os.MkdirAll(dir, 0o755)
	} else {
		defer os.RemoveAll(dir)
	}
	var obs []*Oblig
	pres := map[*Exec][2]string{}
	for _, fr := range frs {
		if fr.Ex != nil {
			pres[fr.Ex] = [2]string{fr.Pre, fr.PreExact}
		}
		for _, o := range fr.Obligs {
			if o.Kind == "create" || o.Kind == "pre" {
				obs = append(obs, o)
			}
		}
	}
	solveAll(obs, pres, *timeout, 16, false, dir)
	nOK := 0
	for _, fr := range frs {
		for _, u := range fr.Unsupported {
			fmt.Printf("UNSUPPORTED %s: %s\n", fr.Name, strings.SplitN(u, "\n", 2)[0])
		}
		if *snotes {
			for _, n := range fr.Notes {
				fmt.Printf("note %s: %s\n", fr.Name, n)
			}
		}
		for _, o := range fr.Obligs {
			if o.Kind != "create" && o.Kind != "pre" {
				continue
			}
			if o.Res.Status == "unsat" {
				nOK++
				continue
			}
			fmt.Printf("%-8s %s (%s) %s\n", o.Res.Status, o.Name, o.Pos, strings.ReplaceAll(o.Res.Model, "\n", " "))
			if o.Res.Status == "error" {
				out := o.Res.Output
				if len(out) > 300 {
					out = out[:300]
				}
				fmt.Printf("    %s\n", strings.ReplaceAll(out, "\n", " "))
			}
		}
	}
	fmt.Printf("sweep: %d functions, %d creation sites, %d proved canonical without any contract\n", len(frs), len(obs), nOK)
}

// sweepContracts: synthetic empty contracts (sweep mode) for every function without contract that
// creates a value of a type with a creation invariant.
func (g *Gen) sweepContracts(only string, prop string, create bool) []*Contract {
	var out []*Contract
	var names []string
	for k := range g.funcs {
		names = append(names, k)
	}
	sort.Strings(names)
	hasProp := func(cc *Contract) bool {
		if cc == nil || !cc.Flags["sweep-callers"] || len(cc.Requires) == 0 {
			return false
		}
		if prop == "" {
			return true
		}
		for _, p := range cc.Props {
			if p == prop {
				return true
			}
		}
		return false
	}
	for _, k := range names {
		fn := g.funcs[k]
		if fn.Pkg == nil || g.contracts[fn] != nil || fn.Synthetic != "" || !strings.Contains(k, only) {
			continue
		}
		if f := g.prog.Fset.File(fn.Pos()); f == nil || strings.Contains(f.Name(), "zz_verif_") || strings.HasSuffix(f.Name(), "_test.go") || !strings.HasPrefix(f.Name(), g.repo) {
			continue
		}
		has := false
		for _, b := range fn.Blocks {
			for _, in := range b.Instrs {
				if mi, ok := in.(*ssa.MakeInterface); ok && create && g.createInv[typeKey(mi.X.Type())] != nil {
					has = true
				}
				if c, ok := in.(*ssa.Call); ok {
					com := c.Common()
					if com.IsInvoke() {
						if hasProp(g.ifaceContracts[ifaceKey(com.Value.Type(), com.Method)]) {
							has = true
						}
					} else if cal := com.StaticCallee(); cal != nil {
						if hasProp(g.contracts[cal]) {
							has = true
						}
					}
				}
			}
		}
		if !has {
			continue
		}
		out = append(out, &Contract{Func: fn.RelString(fn.Pkg.Pkg), Fn: fn, Flags: map[string]bool{"sweep": true}, Loops: map[int]*LoopSpec{}})
	}
	return out
}

// sweepProp: call sites of this contracted function are swept for its preconditions.
func sweepProp(cc *Contract) bool { return cc.Flags["sweep-callers"] }

// verifyAll generates the VCs of many functions in parallel.
func (g *Gen) verifyAll(cs []*Contract) []*FuncResult {
	out := make([]*FuncResult, len(cs))
	sem := make(chan struct{}, 12)
	var wg sync.WaitGroup
	for i, c := range cs {
		wg.Add(1)
		sem <- struct{}{}
		go func(i int, c *Contract) {
			defer wg.Done()
			defer func() { <-sem }()
			out[i] = g.verifyFunc(c)
		}(i, c)
	}
	wg.Wait()
	return out
}

func (g *Gen) verifyFunc(con *Contract) *FuncResult {
	fr := &FuncResult{Name: con.Func, Con: con}
	if len(con.Errors) > 0 {
		fr.Unsupported = append(fr.Unsupported, con.Errors...)
		return fr
	}
	if con.Fn == nil {
		fr.Unsupported = append(fr.Unsupported, "no SSA function")
		return fr
	}
	ex := g.newExec(con.Fn, con)
	ex.sweep = con.Flags["sweep"]
	fr.Ex = ex
	func() {
		defer func() {
			if r := recover(); r != nil {
				buf := make([]byte, 4096)
				n := runtime.Stack(buf, false)
				ex.unsup("engine panic: %v\n%s", r, buf[:n])
			}
		}()
		ex.run()
	}()
	fr.Name = ex.fnName()
	fr.Obligs = ex.obligs
	fr.Unsupported = ex.unsupported
	fr.Notes = ex.e.notes
	fr.Pre = ex.e.preamble(nil, false)
	fr.PreExact = ex.e.preamble(nil, true)
	return fr
}

func main() {
	initEnv()
	if len(os.Args) < 2 {
		fmt.Fprintln(os.Stderr, "usage: gvc check|verify|replay ...")
		os.Exit(2)
	}
	switch os.Args[1] {
	case "verify":
		cmdVerify(os.Args[2:])
	case "check":
		cmdCheck(os.Args[2:])
	case "replay":
		cmdReplay(os.Args[2:])
	case "sweep":
		cmdSweep(os.Args[2:])
	case "stable":
		root := "/repo"
		if len(os.Args) > 2 {
			root = os.Args[2]
		}
		g, err := loadAll(root)
		if err != nil {
			fmt.Fprintln(os.Stderr, err)
			os.Exit(2)
		}
		for _, o := range append(append(g.stableScan(), g.immutableScan()...), g.publishedScan()...) {
			fmt.Println(o.Res.Status, o.Name, o.Res.Output)
		}
	case "overlay":
		g, err := loadAll("/repo")
		if g != nil {
			for d, s := range g.overlaySrc {
				fmt.Printf("// ---- %s\n%s\n", d, s)
			}
		}
		if err != nil {
			fmt.Fprintln(os.Stderr, err)
			os.Exit(2)
		}
	default:
		fmt.Fprintln(os.Stderr, "unknown command", os.Args[1])
		os.Exit(2)
	}
}

func cmdVerify(args []string) {
	fs := flag.NewFlagSet("verify", flag.ExitOnError)
	repo := fs.String("repo", "/repo", "repository root")
	fnPat := fs.String("func", "", "substring of function names to verify (comma separated); empty = all")
	timeout := fs.Int("timeout", 10, "per-obligation timeout (s)")
	dump := fs.String("dump", "", "directory to keep SMT files")
	all := fs.Bool("all-solvers", false, "run every solver")
	verbose := fs.Bool("v", false, "verbose")
	cover := fs.Bool("cover", false, "vacuity check of every path condition")
	fs.Parse(args)
	g, err := loadAll(*repo)
	if err != nil {
		fmt.Fprintln(os.Stderr, "CANNOT-CHECK:", err)
		os.Exit(2)
	}
	for _, er := range g.cs.Errors {
		fmt.Println("contract error:", er)
	}
	var frs []*FuncResult
	for _, c := range g.cs.All {
		if c.IsIface && !c.Flags["trusted"] {
			for _, d := range g.ifaceImpls(c) {
				if *fnPat == "" || strings.Contains(d.Func, *fnPat) || strings.Contains(c.Func, *fnPat) {
					frs = append(frs, g.verifyFunc(d))
				}
			}
			continue
		}
		if c.IsIface || c.Flags["trusted"] || c.Flags["pure"] || c.Flags["uninterpreted"] {
			continue
		}
		if *fnPat != "" {
			ok := false
			for _, p := range strings.Split(*fnPat, ",") {
				if strings.Contains(c.Func, p) {
					ok = true
				}
			}
			if !ok {
				continue
			}
		}
		frs = append(frs, g.verifyFunc(c))
	}
	dir := *dump
	if dir == "" {
		dir, _ = os.MkdirTemp("", "gvc-smt-")
		defer os.RemoveAll(dir)
	} else {
		os.MkdirAll(dir, 0o755)
	}
	var obs []*Oblig
	pres := map[*Exec][2]string{}
	for _, fr := range frs {
		if fr.Ex != nil {
			pres[fr.Ex] = [2]string{fr.Pre, fr.PreExact}
		}
		obs = append(obs, fr.Obligs...)
	}
	solveAll(obs, pres, *timeout, 16, *all, dir)
	if *cover {
		vac, n := coverCheck(obs, pres, 5, dir)
		fmt.Printf("cover: %d path conditions checked, %d vacuous\n", n, len(vac))
		for _, v := range vac {
			fmt.Println("   VACUOUS at", v)
		}
	}
	bad := 0
	for _, fr := range frs {
		fmt.Printf("== %s: %d obligations\n", fr.Name, len(fr.Obligs))
		for _, u := range fr.Unsupported {
			fmt.Printf("   UNSUPPORTED: %s\n", u)
			bad++
		}
		if *verbose {
			for _, n := range fr.Notes {
				fmt.Printf("   note: %s\n", n)
			}
		}
		sort.SliceStable(fr.Obligs, func(i, j int) bool { return false })
		for _, o := range fr.Obligs {
			st := o.Res.Status
			if st != "unsat" {
				bad++
			}
			fmt.Printf("   %-8s %-7s %5.2fs  %s  (%s)\n", st, o.Res.Solver, o.Res.TimeS, o.Name, o.Pos)
			if st == "sat" && o.Res.Model != "" {
				fmt.Printf("      model: %s\n", strings.ReplaceAll(o.Res.Model, "\n", " "))
			}
			if st == "error" {
				fmt.Printf("      output: %s\n", strings.TrimSpace(o.Res.Output))
			}
			if *verbose && st != "unsat" {
				fmt.Printf("      tried: %v\n", o.Res.Tried)
			}
		}
	}
	if bad > 0 {
		os.Exit(1)
	}
}
