package main

// SMT-LIB emission: sorts, declarations, fresh names.

import (
	"fmt"
	"go/types"
	"sort"
	"strings"
)

// Val is the translator-level representation of a Go value.
type Val struct {
	T   string // SMT term
	S   string // SMT sort
	Loc *Loc   // interior pointer tracked symbolically (T empty)
	Tup []Val  // tuple
	Clo *Closure
}

type Closure struct {
	Fn       interface{} // *ssa.Function
	Bindings []Val
}

const (
	LField = iota
	LElem
	LCell
	LGlobal
	LLocal
	LSub
	LArr
	LFieldOf // field Idx (decimal) of the struct value stored at Parent
)

// Loc is a symbolic memory location (the target of a pointer).
type Loc struct {
	Kind   int
	Base   string // Ref (LField, LCell), ArrRef (LElem)
	Idx    string // LElem, LSub
	Heap   string // heap variable name
	Typ    types.Type
	Parent *Loc // LSub
}

// Emitter collects the declarations and the linear script of one function's VC.
type Emitter struct {
	defs     map[string]string // defined name -> term
	pre      []string
	declared map[string]bool
	lines    []string
	n        int
	// heap var registry: name -> sort
	hsort             map[string]string
	tags              map[string]int // concrete type key -> tag id
	tagTy             map[string]types.Type
	boxed             map[string]bool
	notes             []string // abstraction notes
	noted             map[string]bool
	ifaceImpl         map[string]bool
	convAx, convExact []string
	packed            map[string]string
	boxOrder          []string
	boxSort           map[string]string
	late              []string
	fieldIDs          map[string]int
	g                 *Gen
}

func newEmitter(g *Gen) *Emitter {
	e := &Emitter{declared: map[string]bool{}, hsort: map[string]string{}, tags: map[string]int{}, tagTy: map[string]types.Type{}, boxed: map[string]bool{}, noted: map[string]bool{}, ifaceImpl: map[string]bool{}, packed: map[string]string{}, boxSort: map[string]string{}, g: g}
	e.pre = append(e.pre,
		"(declare-sort ArrRef 0)", "(declare-const nilarr ArrRef)",
		// Ref: object identities. Derived references (slice elements of struct type, embedded
		// structs, materialised field pointers) are constructors, hence injective and disjoint.
		"(declare-datatypes ((Ref 0)) (((nil) (obj (obj_id Int)) (elemref (elemref_arr ArrRef) (elemref_idx Int)) (subref (sub_field Int) (sub_parent Ref)))))",
		// the object a reference to an embedded struct (nested up to three levels) lives in
		"(define-fun root1 ((r Ref)) Ref (ite ((_ is subref) r) (sub_parent r) r))",
		"(define-fun rootref ((r Ref)) Ref (root1 (root1 (root1 r))))",
		"(declare-sort Str 0)", "(declare-fun str_len (Str) Int)", "(declare-fun str_at (Str Int) Int)",
		"(assert (forall ((s Str)) (! (>= (str_len s) 0) :pattern ((str_len s)))))",
		"(declare-sort Fn 0)", "(declare-const nilfn Fn)",
		"(declare-datatypes ((Slice 0)) (((mk-slice (s.arr ArrRef) (s.off Int) (s.len Int) (s.cap Int)))))",
		"(define-sort F64 () (_ FloatingPoint 11 53))",
		"(define-sort F32 () (_ FloatingPoint 8 24))",
		"(define-fun godiv ((a Int) (b Int)) Int (ite (>= a 0) (ite (> b 0) (div a b) (- (div a (- b)))) (ite (> b 0) (- (div (- a) b)) (div (- a) (- b)))))",
		"(define-fun gorem ((a Int) (b Int)) Int (- a (* b (godiv a b))))",
		"@BOX@",
	)
	return e
}

func (e *Emitter) note(s string) {
	if !e.noted[s] {
		e.noted[s] = true
		e.notes = append(e.notes, s)
	}
}

func (e *Emitter) fresh(prefix string) string {
	e.n++
	return fmt.Sprintf("%s!%d", prefix, e.n)
}

func (e *Emitter) declPre(name, decl string) {
	if e.declared[name] {
		return
	}
	e.declared[name] = true
	e.pre = append(e.pre, decl)
}

// declConst declares a constant in the preamble.
func (e *Emitter) declConst(name, sort string) string {
	e.declPre(name, fmt.Sprintf("(declare-const %s %s)", name, sort))
	return name
}

func (e *Emitter) freshConst(prefix, sort string) string {
	return e.declConst(e.fresh(prefix), sort)
}

func (e *Emitter) line(s string) { e.lines = append(e.lines, s) }

func (e *Emitter) assume(t string) {
	if t == "true" || t == "" {
		return
	}
	e.line("(assert " + t + ")")
}

// define names a closed term.
func (e *Emitter) define(prefix, sort, term string) string {
	if isAtom(term) {
		return term
	}
	n := e.fresh(prefix)
	if e.defs == nil {
		e.defs = map[string]string{}
	}
	e.defs[n] = term
	if strings.Contains(term, "(ite ") {
		// an opaque constant: names whose definition contains ite must not be macro-expanded
		// into quantifier patterns (z3 rejects 'if' in patterns)
		e.line(fmt.Sprintf("(declare-const %s %s)", n, sort))
		e.line(fmt.Sprintf("(assert (= %s %s))", n, term))
		return n
	}
	e.line(fmt.Sprintf("(define-fun %s () %s %s)", n, sort, term))
	return n
}

func isAtom(t string) bool {
	return !strings.ContainsAny(t, " (")
}

func sanitize(s string) string {
	var b strings.Builder
	for _, r := range s {
		switch {
		case r >= 'a' && r <= 'z', r >= 'A' && r <= 'Z', r >= '0' && r <= '9', r == '_':
			b.WriteRune(r)
		case r == '*':
			b.WriteString("p.")
		case r == '.':
			b.WriteRune('.')
		case r == '[':
			b.WriteString("<")
		case r == ']':
			b.WriteString(">")
		case r == '/':
			b.WriteRune('.')
		default:
			b.WriteRune('~')
		}
	}
	return b.String()
}

func typeKey(t types.Type) string {
	s := types.TypeString(t, func(p *types.Package) string { return p.Name() })
	if len(s) > 60 {
		// anonymous struct etc.
		h := uint32(2166136261)
		for i := 0; i < len(s); i++ {
			h = (h ^ uint32(s[i])) * 16777619
		}
		s = fmt.Sprintf("anon%x", h)
	}
	return sanitize(s)
}

func isStruct(t types.Type) (*types.Struct, bool) {
	s, ok := t.Underlying().(*types.Struct)
	return s, ok
}

// sortOf returns the SMT sort of a Go type, declaring datatypes as needed.
func (e *Emitter) sortOf(t types.Type) string {
	switch u := t.Underlying().(type) {
	case *types.Basic:
		switch {
		case u.Info()&types.IsBoolean != 0:
			return "Bool"
		case u.Info()&types.IsInteger != 0:
			return "Int"
		case u.Kind() == types.Float64 || u.Kind() == types.UntypedFloat:
			return "F64"
		case u.Kind() == types.Float32:
			return "F32"
		case u.Info()&types.IsString != 0:
			return "Str"
		case u.Kind() == types.UnsafePointer:
			return "Ref"
		case u.Kind() == types.UntypedNil:
			return "Ref"
		}
		return "Int"
	case *types.Pointer:
		return "Ref"
	case *types.Slice:
		return "Slice"
	case *types.Map, *types.Chan:
		return "Ref"
	case *types.Signature:
		return "Fn"
	case *types.Interface:
		return "Box"
	case *types.Struct:
		name := "S_" + typeKey(t)
		if !e.declared[name] {
			e.declared[name] = true
			var fs []string
			for i := 0; i < u.NumFields(); i++ {
				f := u.Field(i)
				fs = append(fs, fmt.Sprintf("(%s.%s %s)", name, fieldName(f, i), e.sortOf(f.Type())))
			}
			e.pre = append(e.pre, fmt.Sprintf("(declare-datatypes ((%s 0)) (((mk_%s %s))))", name, name, strings.Join(fs, " ")))
		}
		return name
	case *types.Array:
		return "(Array Int " + e.sortOf(u.Elem()) + ")"
	case *types.Tuple:
		return "Tuple"
	}
	return "Int"
}

func fieldName(f *types.Var, i int) string {
	n := f.Name()
	if n == "_" || n == "" {
		n = fmt.Sprintf("_%d", i)
	}
	return n
}

// ---- integer ranges

func intRange(t types.Type) (lo, hi string, ok bool) {
	b, isb := t.Underlying().(*types.Basic)
	if !isb || b.Info()&types.IsInteger == 0 {
		return "", "", false
	}
	switch b.Kind() {
	case types.Int8:
		return "(- 128)", "127", true
	case types.Int16:
		return "(- 32768)", "32767", true
	case types.Int32:
		return "(- 2147483648)", "2147483647", true
	case types.Int, types.Int64, types.UntypedInt:
		return "(- 9223372036854775808)", "9223372036854775807", true
	case types.Uint8:
		return "0", "255", true
	case types.Uint16:
		return "0", "65535", true
	case types.Uint32:
		return "0", "4294967295", true
	case types.Uint, types.Uint64, types.Uintptr:
		return "0", "18446744073709551615", true
	}
	return "", "", false
}

func intBits(t types.Type) (bits int, signed bool) {
	b, isb := t.Underlying().(*types.Basic)
	if !isb {
		return 64, true
	}
	switch b.Kind() {
	case types.Int8:
		return 8, true
	case types.Int16:
		return 16, true
	case types.Int32:
		return 32, true
	case types.Int, types.Int64, types.UntypedInt:
		return 64, true
	case types.Uint8:
		return 8, false
	case types.Uint16:
		return 16, false
	case types.Uint32:
		return 32, false
	case types.Uint, types.Uint64, types.Uintptr:
		return 64, false
	}
	return 64, true
}

func pow2(n int) string {
	// decimal string of 2^n for n<=64
	var v [2]uint64
	if n < 64 {
		return fmt.Sprintf("%d", uint64(1)<<uint(n))
	}
	_ = v
	return "18446744073709551616"
}

func smtInt(i int64) string {
	if i < 0 {
		if i == -9223372036854775808 {
			return "(- 9223372036854775808)"
		}
		return fmt.Sprintf("(- %d)", -i)
	}
	return fmt.Sprintf("%d", i)
}

// wrapInt wraps a mathematical integer term into the range of type t.
func wrapInt(term string, t types.Type) string {
	bits, signed := intBits(t)
	m := pow2(bits)
	if !signed {
		return fmt.Sprintf("(mod %s %s)", term, m)
	}
	h := pow2(bits - 1)
	return fmt.Sprintf("(- (mod (+ %s %s) %s) %s)", term, h, m, h)
}

// rangeAssume returns a formula constraining term to the value range of Go type t ("" if none).
func (e *Emitter) rangeAssume(term string, t types.Type) string {
	if lo, hi, ok := intRange(t); ok {
		return fmt.Sprintf("(and (<= %s %s) (<= %s %s))", lo, term, term, hi)
	}
	switch u := t.Underlying().(type) {
	case *types.Slice:
		// slice headers hold Go ints; an array never exceeds what the allocator hands out (2^48 bytes)
		esz := types.SizesFor("gc", "amd64").Sizeof(u.Elem())
		if esz < 1 {
			esz = 1
		}
		return fmt.Sprintf("(and (<= 0 (s.off %s)) (<= 0 (s.len %s)) (<= (s.len %s) (s.cap %s)) (<= (+ (s.off %s) (s.cap %s)) %d) (=> (> (s.cap %s) 0) (not (= (s.arr %s) nilarr))))", term, term, term, term, term, term, int64(281474976710656)/esz, term, term)
	case *types.Interface:
		// the dynamic type implements the static interface type
		return e.implementsTerm(fmt.Sprintf("(tagof %s)", term), t, true)
	}
	return ""
}

// ---- type tags and boxing

func (e *Emitter) tagOf(t types.Type) int {
	k := typeKey(t)
	if id, ok := e.tags[k]; ok {
		return id
	}
	id := len(e.tags) + 1
	e.tags[k] = id
	e.tagTy[k] = t
	return id
}

func (e *Emitter) boxFns(t types.Type) (box, unbox string) {
	k := typeKey(t)
	box, unbox = "box_"+k, "unbox_"+k
	if !e.boxed[k] {
		e.boxed[k] = true
		e.tagOf(t)
		s := e.sortOf(t)
		if strings.HasPrefix(s, "S_") || strings.HasPrefix(s, "(Array") {
			// struct/array payloads: packed through an uninterpreted sort declared before Box
			sv := "SV_" + k
			if isUnitType(t) {
				sv = "unit"
			}
			e.packed[k] = sv
		}
		e.boxOrder = append(e.boxOrder, k)
		e.boxSort[k] = s
	}
	if sv, ok := e.packed[k]; ok {
		_ = sv
		return "boxp_" + k, "unboxp_" + k
	}
	return
}

// boxDecl emits the Box datatype: the disjoint union of every concrete type stored in an interface.
func (e *Emitter) boxDecl() (string, string) {
	var b strings.Builder
	var cons, tagIte []string
	var post []string
	cons = append(cons, "(nilbox)")
	for _, k := range e.boxOrder {
		s := e.boxSort[k]
		if sv, ok := e.packed[k]; ok && sv == "unit" {
			cons = append(cons, fmt.Sprintf("(box_%s)", k))
			post = append(post,
				fmt.Sprintf("(define-fun boxp_%s ((x %s)) Box box_%s)", k, s, k),
				fmt.Sprintf("(define-fun unboxp_%s ((b Box)) %s %s)", k, s, e.zeroValue(e.tagTy[k])))
		} else if sv, ok := e.packed[k]; ok {
			fmt.Fprintf(&b, "(declare-sort %s 0)\n", sv)
			cons = append(cons, fmt.Sprintf("(box_%s (unbox_%s %s))", k, k, sv))
			post = append(post,
				fmt.Sprintf("(declare-fun pack_%s (%s) %s)", k, s, sv),
				fmt.Sprintf("(declare-fun unpack_%s (%s) %s)", k, sv, s),
				fmt.Sprintf("(assert (forall ((x %s)) (! (= (unpack_%s (pack_%s x)) x) :pattern ((pack_%s x)))))", s, k, k, k),
				fmt.Sprintf("(assert (forall ((y %s)) (! (= (pack_%s (unpack_%s y)) y) :pattern ((unpack_%s y)))))", sv, k, k, k),
				fmt.Sprintf("(define-fun boxp_%s ((x %s)) Box (box_%s (pack_%s x)))", k, s, k, k),
				fmt.Sprintf("(define-fun unboxp_%s ((b Box)) %s (unpack_%s (unbox_%s b)))", k, s, k, k))
		} else {
			cons = append(cons, fmt.Sprintf("(box_%s (unbox_%s %s))", k, k, s))
		}
		tagIte = append(tagIte, fmt.Sprintf("(ite ((_ is box_%s) b) %d ", k, e.tags[k]))
	}
	cons = append(cons, "(box_other (other_tag Int) (other_val Int))")
	fmt.Fprintf(&b, "(declare-datatypes ((Box 0)) ((%s)))\n", strings.Join(cons, " "))
	fmt.Fprintf(&b, "(define-fun tagof ((b Box)) Int (ite ((_ is nilbox) b) 0 %s(+ 100001 (ite (>= (other_tag b) 0) (other_tag b) (- (other_tag b))))%s))\n", strings.Join(tagIte, ""), strings.Repeat(")", len(tagIte)))
	return b.String(), strings.Join(post, "\n") + "\n"
}

// structsAfterBox: struct datatypes are declared after Box (they may contain interface fields);
// they are collected separately.
// implementsTerm: formula "tag denotes a type implementing interface it".
// allowNil: a nil interface value (tag 0) is acceptable.
func (e *Emitter) implementsTerm(tag string, it types.Type, allowNil bool) string {
	iface, ok := it.Underlying().(*types.Interface)
	if !ok {
		return "true"
	}
	if iface.NumMethods() == 0 {
		if allowNil {
			return "true"
		}
		return fmt.Sprintf("(not (= %s 0))", tag)
	}
	name := "impl_" + typeKey(it)
	if !e.ifaceImpl[name] {
		e.ifaceImpl[name] = true
		var ids []string
		for _, c := range e.g.concreteTypes {
			if types.Implements(c, iface) {
				e.boxFns(c) // the Box datatype needs a constructor for every possible dynamic type
				ids = append(ids, fmt.Sprintf("(= t %d)", e.tagOf(c)))
			}
		}
		closed := e.g.closedIface(iface)
		if !closed {
			e.pre = append(e.pre, fmt.Sprintf("(declare-fun %s_other (Int) Bool)", name))
			ids = append(ids, fmt.Sprintf("(and (> t 100000) (%s_other t))", name))
		}
		body := "false"
		if len(ids) > 0 {
			body = "(or " + strings.Join(ids, " ") + " false)"
		}
		e.pre = append(e.pre, fmt.Sprintf("(define-fun %s ((t Int)) Bool %s)", name, body))
	}
	if allowNil {
		return fmt.Sprintf("(or (= %s 0) (%s %s))", tag, name, tag)
	}
	return fmt.Sprintf("(%s %s)", name, tag)
}

// ---- heap variables

func (e *Emitter) heapSort(name string) string { return e.hsort[name] }

func (e *Emitter) regHeap(name, sort string) {
	if _, ok := e.hsort[name]; !ok {
		e.hsort[name] = sort
	}
}

func (e *Emitter) fieldHeap(st types.Type, i int) (string, types.Type) {
	s, _ := isStruct(st)
	f := s.Field(i)
	name := "H_" + typeKey(st) + "_" + fieldName(f, i)
	e.regHeap(name, "(Array Ref "+e.sortOf(f.Type())+")")
	return name, f.Type()
}

func (e *Emitter) elemHeap(elem types.Type) string {
	name := "E_" + typeKey(elem)
	e.regHeap(name, "(Array ArrRef (Array Int "+e.sortOf(elem)+"))")
	return name
}

func (e *Emitter) cellHeap(t types.Type) string {
	name := "C_" + typeKey(t)
	e.regHeap(name, "(Array Ref "+e.sortOf(t)+")")
	return name
}

func (e *Emitter) fieldID(key string) int {
	if id, ok := e.fieldIDs[key]; ok {
		return id
	}
	if e.fieldIDs == nil {
		e.fieldIDs = map[string]int{}
	}
	id := len(e.fieldIDs) + 1
	e.fieldIDs[key] = id
	return id
}

func (e *Emitter) subRef(st types.Type, i int, base string) string {
	s, _ := isStruct(st)
	return fmt.Sprintf("(subref %d %s)", e.fieldID(typeKey(st)+"."+fieldName(s.Field(i), i)), base)
}

// preamble returns all declarations, including initial heap versions.
func (e *Emitter) preamble(initHeaps map[string]string, exact bool) string {
	var b strings.Builder
	latePost := ""
	b.WriteString("(set-logic ALL)\n")
	for _, l := range e.pre {
		if l == "@BOX@" {
			bd, post := e.boxDecl()
			b.WriteString(bd)
			latePost = post
			continue
		}
		if l == "@CONV@" {
			src := e.convAx
			if exact {
				src = e.convExact
			}
			for _, x := range src {
				b.WriteString(x)
				b.WriteByte('\n')
			}
			continue
		}
		b.WriteString(l)
		b.WriteByte('\n')
	}
	// packed box helpers go after every sort declaration; define-funs that use them (impl_*) are
	// macros over tagof only, so nothing before this point mentions them
	b.WriteString(latePost)
	var names []string
	for n := range initHeaps {
		names = append(names, n)
	}
	sort.Strings(names)
	for _, n := range names {
		fmt.Fprintf(&b, "(declare-const %s %s)\n", n, initHeaps[n])
	}
	return b.String()
}

// isUnitType: a struct type with exactly one value (all fields, recursively, are unit structs).
func isUnitType(t types.Type) bool {
	st, ok := t.Underlying().(*types.Struct)
	if !ok {
		return false
	}
	for i := 0; i < st.NumFields(); i++ {
		if !isUnitType(st.Field(i).Type()) {
			return false
		}
	}
	return true
}
