#!/bin/bash
# Must-fail corpus: every patch in /verif/mutants/<prop>_*.diff is applied to /repo (and undone),
# must still compile, and the property's quick check must report a VIOLATION.
# Usage: selftest.sh [pattern]
cd /repo || exit 2
if [ -n "$(git status --porcelain --untracked-files=no)" ]; then echo "repo not clean"; exit 2; fi
fail=0
for m in /verif/mutants/*${1}*.diff; do
  prop=$(basename "$m" | cut -d_ -f1)
  if ! git apply "$m" 2>/dev/null; then echo "SKIP  $(basename $m): does not apply"; fail=1; continue; fi
  out=$(/verif/bin/gvc check --property "$prop" 2>&1); rc=$?
  git checkout -- . 
  if [ $rc -eq 1 ] && echo "$out" | grep -q "^VIOLATION property=$prop"; then
    echo "KILLED $(basename $m): $(echo "$out" | grep '^FAILED-OBLIGATION' | head -2 | tr '\n' ' ')"
  else
    echo "MISSED $(basename $m) (rc=$rc)"; echo "$out" | tail -3; fail=1
  fi
done
# the runs above were made on changed trees: put the evidence files of the unchanged tree back
git -C /verif checkout -- evidence 2>/dev/null
exit $fail
