#!/bin/bash
# Parallel must-fail run: like selftest.sh, but every mutant is applied to one of N scratch worktrees of
# /repo (under /tmp, removed afterwards) and checked with `gvc check -repo`, so /repo itself stays clean.
# Usage: selftest_par.sh [N] [pattern]
N=${1:-3}; PAT=$2
cd /repo || exit 2
if [ -n "$(git status --porcelain --untracked-files=no)" ]; then echo "repo not clean"; exit 2; fi
for i in $(seq 1 $N); do git worktree remove --force /tmp/mt-$i 2>/dev/null; git worktree add -q --detach /tmp/mt-$i HEAD || exit 2; done
ls /verif/mutants/*${PAT}*.diff > /tmp/mt-list.txt
run() { # worker i
  i=$1; wt=/tmp/mt-$i
  awk -v n=$N -v k=$i 'NR % n == k % n' /tmp/mt-list.txt | while read m; do
    prop=$(basename "$m" | cut -d_ -f1)
    if ! git -C $wt apply "$m" 2>/dev/null; then echo "SKIP  $(basename $m): does not apply"; continue; fi
    out=$(/verif/bin/gvc check -repo $wt --property "$prop" 2>&1); rc=$?
    git -C $wt checkout -- .
    if [ $rc -eq 1 ] && echo "$out" | grep -q "^VIOLATION property=$prop"; then
      echo "KILLED $(basename $m): $(echo "$out" | grep '^FAILED-OBLIGATION' | head -1 | cut -c1-160)"
    else
      echo "MISSED $(basename $m) (rc=$rc)"; echo "$out" | tail -3
    fi
  done
}
for i in $(seq 1 $N); do run $i > /tmp/mt-out-$i.log 2>&1 & done
wait
cat /tmp/mt-out-*.log | sort
# the runs above were made on changed trees: put the evidence files of the unchanged tree back
git -C /verif checkout -- evidence 2>/dev/null
for i in $(seq 1 $N); do git worktree remove --force /tmp/mt-$i; done
