// Known finding C07: a comparator that only ever answers 0 or -0 says "all equal"; a stable sort must
// leave the input order alone. goja orders by "-0 means less".
var a = [{k:2},{k:1}].sort(function(x, y) { return x.k > y.k ? 0 : -0; });
a.map(function(o){return o.k}).join();   // spec: "2,1"; goja: "1,2"
