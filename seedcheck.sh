#!/bin/bash
# seedcheck.sh <prop> <worktree> <seed-id> : confirm a seeded change (demo fails with it, passes without,
# suite passes), store it under /verif/seeded/<seed-id>/, run the property's check against it.
prop=$1; wt=$2; id=$3
export GOFLAGS=-mod=mod GOPROXY=off
cd $wt || exit 2
dst=/verif/seeded/$id; mkdir -p $dst
git diff -- . ':(exclude)seed_demo_test.go' ':(exclude)*_test.go' > $dst/patch.diff
demo=$(ls seed_demo_test.go */seed_demo_test.go 2>/dev/null | head -1)
cp $demo $dst/ 2>/dev/null
pkg=./$(dirname $demo)
with=$(go test -vet=off -count=1 -run 'TestSeedDemo$' $pkg 2>&1 | tail -3)
git apply -R $dst/patch.diff
without=$(go test -vet=off -count=1 -run 'TestSeedDemo$' $pkg 2>&1 | tail -1)
git apply $dst/patch.diff
suite=$(go test -vet=off -count=1 -skip 'TestSeedDemo$' ./... 2>&1 | grep -v "no test files" | tr '\n' ' ')
echo "WITH: $with"; echo "WITHOUT: $without"; echo "SUITE: $suite"
if [ -n "$(git -C /repo status --porcelain --untracked-files=no)" ]; then echo "/repo not clean - commit first"; exit 2; fi
cd /repo && git apply $dst/patch.diff || { echo "patch does not apply to /repo"; exit 2; }
out=$(/verif/bin/gvc check --property $prop 2>&1); rc=$?
git -C /repo checkout -- .
# the runs above were made on changed trees: put the evidence files of the unchanged tree back
git -C /verif checkout -- evidence 2>/dev/null
echo "CHECK rc=$rc"; echo "$out" | grep "^FAILED\|^VIOLATION\|^OK" | head -6 | cut -c1-300
echo "{\"with\": $(echo "$with" | jq -Rs .), \"without\": $(echo "$without" | jq -Rs .), \"suite\": $(echo "$suite" | jq -Rs .), \"check_rc\": $rc, \"check_out\": $(echo "$out" | grep "^FAILED\|^VIOLATION\|^OK" | head -6 | jq -Rs .)}" > $dst/run.json
